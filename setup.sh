#!/bin/bash
# Offline setup: parse every specification with SANY, build the harness once (warms the Go build cache).
set -e
cd "$(dirname "$0")"
export GOFLAGS=-mod=mod GOPROXY=off GOSUMDB=off GOTOOLCHAIN=local
cp /repo/go.sum harness/go.sum
mkdir -p bin evidence
(cd harness && go build -tags verif -o ../bin/vharness ./cmd/vharness)
(cd /repo && go build -o /verif/bin/k8snetpolicy ./cmd/netpolicy)
T=$(mktemp -d /dev/shm/verif-setup.XXXXXX)
cp specs/*.tla "$T"/
for f in "$T"/*.tla; do
  (cd "$T" && tla-sany "$(basename "$f")" > "$T/sany.out" 2>&1) || { cat "$T/sany.out"; rm -rf "$T"; exit 1; }
  if grep -q "error" "$T/sany.out" && ! grep -q "Semantic errors:$" /dev/null; then
    if grep -qE "^(Fatal|Parse|Semantic) error|\*\*\* Errors" "$T/sany.out"; then cat "$T/sany.out"; rm -rf "$T"; exit 1; fi
  fi
done
rm -rf "$T"
echo setup ok
