"""./check selftest [<ID> ...]   -- demonstrates the binding between the recorded traces and the trace specifications.

For every given property (default: all) the property's quick check is run once with trace validation wrapped: after the genuine
validation of a recorded trace (which must be accepted), a CORRUPTED copy of it is validated as well. In the copy, one leaf of one
event per case group is replaced by a value of the same type seen at the same JSON path elsewhere in the trace (booleans are
flipped, lists lose or repeat an element), so the corrupted observation stays inside the domain the harness can emit. Reported:

  * per (event, field path): how many corruptions the trace specification rejected (a MISMATCH attributed to that group) -
    fields that are never rejected are not bound by the specification (informational fields such as messages belong here);
  * every TLC failure on a corrupted trace: a mismatch REPORTER that cannot cope with the mismatch it has to report would turn a
    violation into "no verdict" (this is how seed C04b was first missed) - the self-test fails (exit 1) when one occurs.

Results: /verif/selftest/<ID>.json. This is a development aid, not a registered check; it says nothing about /repo."""
import collections, json, os, random, sys, time

import vlib

_GROUP_START = ('{"ev":"World"', '{"ev":"Init"', '{"ev":"Start"', '{"ev":"Conflict"', '{"ev":"Pipe"', '{"ev":"Mut"', '{"ev":"Cli"')
# events that describe the model side of an M1 / M2 / M3 trace: corrupting them changes the question, not the answer
_MODEL_EVENTS = ('World', 'Init', 'Start', 'Op')
_OUTCOMES = ('ok', 'error', 'result', 'empty')
_MAX_CHUNKS = 6
_MAX_LINES = 400


def _paths(x, prefix=''):
    """(path, container, key) for every leaf / list of a JSON value; list indices are abstracted to []."""
    if isinstance(x, dict):
        for k, v in x.items():
            if isinstance(v, (dict, list)):
                if isinstance(v, list):
                    yield (prefix + '.' + k + '[]', x, k, 'list')
                yield from _paths(v, prefix + '.' + k)
            else:
                yield (prefix + '.' + k, x, k, 'leaf')
    elif isinstance(x, list):
        for i, v in enumerate(x):
            if isinstance(v, (dict, list)):
                if isinstance(v, list):
                    yield (prefix + '[][]', x, i, 'list')
                yield from _paths(v, prefix + '[]')
            else:
                yield (prefix + '[]', x, i, 'leaf')


def _corrupt(ev, pools, rnd, safe=False):
    """Changes one leaf (or list) of the event in place; returns the path or None.
    safe: only corruptions that cannot leave the shape the harness emits (no integer swaps - indices, lengths -, list edits
    only on collections of records / strings, not on fixed-shape arrays of numbers, booleans or arrays)."""
    cands = list(_paths(ev))
    rnd.shuffle(cands)
    for path, cont, key, kind in cands:
        if path in ('.ev',):
            continue
        old = cont[key]
        if safe and kind == 'leaf' and isinstance(old, int) and not isinstance(old, bool):
            continue
        if kind == 'list':
            if len(old) == 0:
                continue
            if safe and not all(isinstance(x, (dict, str)) for x in old):
                continue
            if rnd.random() < 0.5 or len(old) == 1:
                cont[key] = old[:-1]
                return path + ':drop'
            cont[key] = old + [old[0]]
            return path + ':repeat'
        if isinstance(old, bool):
            cont[key] = not old
            return path + ':flip'
        pool = [v for v in pools.get((ev.get('ev'), path), ()) if v != old and type(v) is type(old)]
        if isinstance(old, str) and old in _OUTCOMES and rnd.random() < 0.3:
            pool = ['panic']          # the unchanged tree never panics: the crash reporters are exercised by injection
        if not pool:
            continue
        cont[key] = rnd.choice(pool)
        return path + ':swap'
    return None


def corrupt_trace(src, dst, rnd, safe=False):
    """Writes a corrupted copy of (a prefix of) the trace; returns {first line of group: (line, event, path)}."""
    lines = []
    with open(src) as f:
        for ln in f:
            if len(lines) >= _MAX_LINES and ln.startswith(_GROUP_START):
                break
            lines.append(ln)
    evs = [json.loads(ln) for ln in lines]
    pools = collections.defaultdict(set)
    for ev in evs:
        for path, cont, key, kind in _paths(ev):
            if kind == 'leaf' and not isinstance(cont[key], bool) and cont[key] is not None:
                try:
                    pools[(ev.get('ev'), path)].add(cont[key])
                except TypeError:
                    pass
    pools = {k: sorted(v, key=repr) for k, v in pools.items()}
    groups, cur = [], []
    for i, ln in enumerate(lines):
        if ln.startswith(_GROUP_START) and cur:
            groups.append(cur)
            cur = []
        cur.append(i)
    if cur:
        groups.append(cur)
    # long case groups (an engine history, a register-machine sequence: observations of one step do not carry over to the
    # next) are cut into pieces of six lines, each corrupted and judged on its own
    if groups and sum(len(g) for g in groups) / len(groups) > 12:
        groups = [g[k:k + 6] for g in groups for k in range(0, len(g), 6)]
    done = {}
    for g in groups:
        one_event_case = len(g) == 1
        cand = [i for i in g if one_event_case or evs[i].get('ev') not in _MODEL_EVENTS]
        if not cand:
            continue
        i = rnd.choice(cand)
        path = _corrupt(evs[i], pools, rnd, safe)
        if path:
            done[g[0] + 1] = (i + 1, evs[i].get('ev'), path, g[-1] + 1)
    with open(dst, 'w') as f:
        for ev in evs:
            f.write(json.dumps(ev, separators=(',', ':')) + '\n')
    return done


class Collector:
    def __init__(self):
        self.fields = collections.defaultdict(lambda: [0, 0])     # (module, event, path) -> [rejected, total]
        self.crashes = []
        self.genuine_rejections = 0
        self.artefacts = 0
        self.traces = 0


def wrap(col, rnd):
    orig = vlib.validate_traces

    def wrapped(module, shards, timeout=9000, cfg=None, extra_env=None):
        res = orig(module, shards, timeout=timeout, cfg=cfg, extra_env=extra_env)
        col.genuine_rejections += len(res['mismatches'])
        chunks = [c for c in res['shards'] if os.path.getsize(c) > 0]
        rnd.shuffle(chunks)
        for ch in chunks[:_MAX_CHUNKS]:
            # (kept away from the directories the checks glob for shards)
            dst = os.path.join(vlib.sub('selftest-corrupt'), '%d-%s' % (col.traces, os.path.basename(ch)))
            col.traces += 1
            r2 = None
            for safe in (False, True):
                done = corrupt_trace(ch, dst, rnd, safe)
                try:
                    r2 = orig(module, [dst], timeout=timeout, cfg=cfg, extra_env=extra_env)
                    break
                except vlib.Infra as e:
                    msg = str(e)
                    # Two kinds of TLC failure. (1) An observation of a shape the harness cannot emit (an index outside a fixed-shape
                    # array, a peer whose redundant fields - key, index, type tag - no longer agree): an artefact of the corruption;
                    # retried once in safe mode, then dropped. (2) A type confusion inside the specification (values of different
                    # types compared while a mismatch set is built): a reporter that cannot report - this is what the self-test is for.
                    confusion = any(t in msg for t in ('Attempted to compare', 'Attempted to check equality', 'Attempted to check set membership',
                                                       'cannot be compared', 'not comparable', 'Attempted to compute'))
                    if not confusion:
                        col.artefacts += 1
                        if not safe:
                            continue
                        break
                    col.crashes.append(dict(module=module, trace=dst, safe_mode=safe, error=msg[:1500]))
                    break
            for junk in (dst, dst + '.tlcout'):
                if os.path.exists(junk) and not any(c['trace'] == dst for c in col.crashes):
                    os.remove(junk)
            if r2 is None:
                continue
            bad_lines = sorted(mm['line'] for (_, mm) in r2['mismatches'])
            for first, (line, evname, path, last) in done.items():
                rejected = any(first <= b <= last for b in bad_lines)
                st = col.fields[(module, evname, path)]
                st[1] += 1
                st[0] += 1 if rejected else 0
        return res

    vlib.validate_traces = wrapped


def main(argv):
    import props
    ids = argv or sorted(props.CHECKS)
    os.makedirs(os.path.join(vlib.VERIF, 'selftest'), exist_ok=True)
    rc = 0
    for pid in ids:
        if pid not in props.CHECKS:
            print('no check for', pid)
            return 2
        col = Collector()
        rnd = random.Random(vlib.seed() * 7919 + hash(pid) % 1000)
        saved = (vlib.validate_traces, vlib.write_evidence)
        wrap(col, rnd)
        vlib.write_evidence = lambda *a, **k: None       # a self-test run never touches the evidence files
        t0 = time.time()
        try:
            crc = props.CHECKS[pid]('quick')
        except vlib.Infra as e:
            print('INFRA-ERROR during self-test of %s: %s' % (pid, e))
            crc = 2
        finally:
            vlib.validate_traces, vlib.write_evidence = saved
        rows = []
        for (module, evname, path), (rej, tot) in sorted(col.fields.items()):
            rows.append(dict(module=module, event=evname, field=path, corrupted=tot, rejected=rej))
        bound = [r for r in rows if r['rejected'] > 0]
        unbound = [r for r in rows if r['rejected'] == 0]
        total = sum(r['corrupted'] for r in rows)
        rejected = sum(r['rejected'] for r in rows)
        out = dict(property=pid, check_exit=crc, corrupted_traces=col.traces, corruptions=total, rejected=rejected,
                   reporter_failures=col.crashes, out_of_shape_corruptions_retried=col.artefacts, fields_bound=bound, fields_never_rejected=unbound, wall_s=round(time.time() - t0, 1))
        with open(os.path.join(vlib.VERIF, 'selftest', pid + '.json'), 'w') as f:
            json.dump(out, f, indent=1, sort_keys=True)
        print('SELFTEST %s: %d corruptions in %d traces, %d rejected (%d field paths bound, %d never rejected), %d reporter failure(s)'
              % (pid, total, col.traces, rejected, len(bound), len(unbound), len(col.crashes)))
        for c in col.crashes[:3]:
            print('  REPORTER FAILURE in %s: %s' % (c['module'], c['error'][:400].replace('\n', ' | ')))
        if col.crashes or crc != 0 or total == 0 or rejected == 0:
            rc = 1
    return rc
