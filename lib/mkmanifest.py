#!/usr/bin/env python3
"""Regenerates /verif/MANIFEST.json from the table below (one entry per claimed property)."""
import json, os, subprocess, sys

VERIF = os.path.dirname(os.path.dirname(os.path.abspath(__file__)))

M1_NOTE = ('Trusted: TLC 1.8 + CommunityModules Json; specs/Ref.tla as a reading of the semantics stated in the property; the harness '
           'concretisation/abstraction (refuses unaligned boundaries); bounded universes (catalogue-driven edits; <=4 workloads, <=3 '
           'policies in TLC behaviours, larger seeded worlds in direction B). Verdicts come only from code built from /repo\'s working tree.')

CLAIMS = {
    'C01': dict(tech='TLA+ reference (Ref.tla) + TLC-simulated edit behaviours (Cluster.tla) replayed on the real list command; recorded traces validated by TLC (ReplayTrace.tla)',
                text='Point-wise equality of the real list report with the declarative NetworkPolicy reference over every (src,dst,protocol,port-chunk,address-class), '
                     'for every state of TLC-generated edit behaviours and for larger seeded worlds; chunk/class alignment makes the comparison exact for all 3x65535 ports and 2^32 addresses. '
                     'Bounded model checking of the reference + trace validation of the implementation; not a proof.', ref='6/C01'),
    'C02': dict(tech='TLA+ reference of ANP>NP>BANP first-match semantics + TLC behaviours with admin-policy edits replayed on the real tool; trace validation; ANP document order permuted by the SwapANPs action (law: report unchanged)',
                text='Point-wise equality of the real report with AdminPol first-match semantics (function of priorities only) on TLC-generated and seeded worlds with ANPs/BANP/NetworkPolicies; '
                     'input-order independence asserted as an edge law on the real reports.', ref='6/C02'),
    'C03': dict(tech='eval sweep (PolicyEngine.CheckIfAllowed on an engine built as list builds it + the built k8snetpolicy eval binary) recorded as Eval events and validated by TLC against Ref and against the list result of the same run',
                text='Every recorded eval reply (all ordered endpoint pairs incl. same pod / other pod of the same workload / address representatives; 3 protocols; both ends and the middle of every port chunk) '
                     'must equal the reference and the list result of the same run and must not be an error where list succeeded.', ref='6/C03'),
    'C04': dict(tech='point-wise diff reference (DiffRef.tla) evaluated by TLC on Diff events recorded for every edge of TLC-generated edit behaviours (diff(prev,cur), diff(cur,prev), diff(cur,cur)) run through the real ConnDiffFromDirPaths; design layer DiffMerge.tla (refine / group by peer;conn1;conn2 / merge touching ranges / classify as diff.go does, TLC-exhaustive over every pair of partitions of 4-5 addresses, each ingredient refuted when dropped) bound to the code by DiffMergeTrace.tla: the real diff run on every input of that specification, exact ranges compared',
                text='For every pair of consecutive worlds of a behaviour (edits include add/remove/re-express workload, policy edits, ipBlock changes, admin policies) and every point (workload-key pair or workload/address class) '
                     'the real diff must have no covering entry when c1=c2=none and otherwise exactly one, of the right type, carrying exactly the reference c1 and c2 and the right new/lost flags; also for the swapped pair and for (A,A).', ref='6/C04'),
    'C05': dict(tech='well-formedness predicate (Obs.tla WellFormedMismatches) evaluated by TLC on the raw, un-abstracted ranges of every recorded list result',
                text='Uniqueness of (src,dst), no self / ip-ip / empty entries, IP peers form a partition of 0.0.0.0-255.255.255.255 into single ranges, canonical port ranges, all-connections flag <=> three full ranges: '
                     'checked by TLC on every list observation of NetworkPolicy, admin-policy and Service/Ingress/Route worlds.', ref='6/C05'),
    'C06': dict(tech='TLA+ reference of exposure soundness over hypothetical pods (ExposureRef.tla: labels over the governing policies\' vocabulary + fresh, existing and new namespaces, single named-port declarations for egress); list --exposure runs (ExposedPeers() through the API, named ports through the verif shim) recorded for TLC-generated and seeded worlds and judged by TLC',
                text='For every replayed NetworkPolicy world: the exposure run reports the same workload/IP connectivity as the plain run; protected flags <=> governed; every reported entry is realizable for every hypothetical pod satisfying its selectors (every pod for entire-cluster): Conc(entry, pod) is contained in what the workload\'s policies of that direction allow. The hypothetical-pod set is exhaustive for the world\'s selector vocabulary.', ref='6/C06'),
    'C07': dict(tech='TLA+ reference of exposure completeness over hypothetical pods (ExposureRef.tla, AllowedNonOmittable / Omittable); same recorded runs as C06, judged by TLC',
                text='For every workload protected in a direction and every hypothetical pod of the bounded-but-exhaustive set, every point the workload\'s policies allow through a non-omittable rule peer is covered by the entire-cluster entry or by an entry whose selectors the pod satisfies (named ports: as declared by the pod for egress).', ref='6/C07'),
    'C08': dict(tech='Determinism events: every command x format x exposure run twice on 4 layouts of the same abstract world (canonical; split/permuted over nested directories with List wrapping; semantically unordered rule/peer/port lists permuted), output hashes compared by TLC (Obs.tla DeterminismMismatches); worlds from TLC behaviours and seeded generators',
                text='All outputs for one key (command/format/exposure) must be byte-identical across layouts and repeats, for list (5 formats, exposure on/off) and diff (4 formats) on every replayed world. '
                     'The layout dimension is explored systematically per world; Go map-iteration schedules are only sampled (exploration-level for that dimension).', ref='6/C08',
                note=M1_NOTE + ' Map iteration orders are sampled, not enumerated. Selector internals (order of matchExpressions/values) are not permuted: the exposure report echoes selectors as written.'),
    'C09': dict(tech='Format / DiffFormat events: the tool\'s own output of every format is parsed back (package formats of the harness) and compared by TLC, as sets of canonical rows, with the API result of the same run and with every other format (Obs.tla FormatMismatches, DiffFormatMismatches)',
                text='For every replayed world: rows(txt)=rows(json)=rows(csv)=rows(md)=rows(dot)=API relation for list (connections, exposure rows, the printed namespace/pod selectors of every exposure peer canonicalised and compared with the selectors of the API, IP rows repeated in exposure sections, unprotected lines), and rows(txt)=rows(csv)=rows(md)=API added/removed/changed entries with both connection values and workload annotations for diff; dot diff additionally unchanged edges and new/lost peer colouring.', ref='6/C09',
                note=M1_NOTE + ' The five list parsers and four diff parsers in /verif/harness/formats are trusted (independent of the tool\'s formatting code).'),
    'C10': dict(tech='TLA+ reference of Ingress/Route -> Service -> workload -> TCP container ports, intersected with the policy reference for a hypothetical unlabeled pod in an unknown namespace (IngressRef.tla); TLC behaviours with AddService/AddIngress/AddRoute edits replayed on the real list command; trace validation',
                text='The {ingress-controller} => W lines and blocked-backend warnings of every replayed state (Services with named/numbered ports and targetPorts, Ingress default/rule backends by number or name, Routes with to/alternateBackends/targetPort, '
                     'workloads with TCP and UDP container ports, NetworkPolicies and admin policies) must equal IngressRef!IngressLine; a known finding (Ingress number matching a targetPort) is reported as such.', ref='6/C10'),
    'C11': dict(tech='TLA+ register machine over connection-set denotations (ConnSetModel.tla); TLC random walks + exhaustive short operation sequences (ConnSet.tla) replayed on real common.ConnectionSet objects through the verif shim; every step validated by TLC (ConnSetTrace.tla); design layer ConnSetImpl.tla (AllowAll / AllowedProtocols / PortSet{Ports, NamedPorts, ExcludedNamedPorts} updated as connectionset.go and portset.go do) checked by TLC over every reachable representation to refine ConnSetModel, each ingredient refuted when dropped, and compared step by step with the representation the real objects hold (design drift is reported, not judged)',
                text='Every step of every explored operation sequence (Make/AddConnection/Union/Intersection/Subtract/Copy on 2-3 registers) must be the set-algebra step on denotations: updated register exact, other registers unchanged, no shared pointers, '
                     'IsEmpty/IsAllConnections/Contains/String/Equal/ContainedIn consistent with denotations, ranges canonical. All sequences of 3 (quick) / 4 (thorough) operations over a 26-operation catalogue are enumerated; longer random walks and seeded sequences over 9 port chunks are sampled.', ref='6/C11',
                note='Trusted: TLC, Json module, ConnSetModel.tla (named ports as atoms; a name is covered by a set holding it or by a full range; name part of Intersection, and completeness of Equal/ContainedIn/all-recognition in presence of excluded-named-port bookkeeping, left unspecified). Hook: pkg/netpol/verifshim (type aliases only).'),
    'C12': dict(cat='fault_enumeration', tech='mutation space enumerated exhaustively by TLC (Mutation.tla over the field schema derived from the seed manifests); every case applied and run through list / list --fail / list --exposure / diff (both sides) / eval + engine updates under recover() and a timeout (thorough: also the built binary); outcomes validated by TLC (MutationTrace.tla)',
                text='Every single structural mutation (drop, null, retype, empty, class-specific foreign values such as IPv6 / garbage addresses, out-of-range numbers, unknown protocol/action/operator/kind, reserved names) of every field of the seed manifests and 8 file-level corruptions per file must end in a result or an error, never a panic or hang; thorough adds all pairs within one document and the CLI. '
                     'Structural/lexical classes, not all byte contents.', ref='6/C12',
                note='The space is an enumeration of mutation classes over one seed directory, not all byte contents. Trusted: TLC, Json/IOUtils modules, Go recover().'),
    'C13': dict(tech='TLA+ state machine of the processing pipeline (Pipeline.tla: scan with extension filter and per-file abort, per-document conversion, stop-on-error, engine build, analysis) model-checked for the four clauses over every scenario; every scenario materialised and run through list and diff (either side); outcomes validated by TLC (PipelineTrace.tla) against the clauses and the model\'s predicted outcome',
                text='For all directories made of 3 layouts of 4 good documents (and a fourth template without any NetworkPolicy) with up to 2 (quick) / 3 (thorough) injected items of the classes named in the property x stopOnError x {list, diff dir1, diff dir2}: connections equal the baseline of the good documents alone, every malformed/unreadable item yields a severe entry (attributable to its file for list), stop-on-error yields no connections, a fatal conflict yields an error and no result, and the outcome class equals the one predicted by the pipeline machine.', ref='6/C13',
                note='Concrete junk per class comes from a small catalogue. A syntactically broken document inside a good multi-document file is excluded (the resource builder abandons the rest of that file; named ScanFileAbort in the model). Attribution to a file is demanded for list only.'),
    'C14': dict(tech='edge laws (Laws.tla) attached to Cluster.tla actions: TLC checks them on the reference (LawsCheck) and ReplayTrace asserts them on the two real reports of every edge',
                text='Additivity, locality and re-spelling invariance asserted oracle-free on pairs of real reports for every AddRule/AddPolicy/Respell*/Split* edge of TLC-generated behaviours; the laws themselves are TLC-checked consequences of the reference.', ref='6/C14'),
    'C15': dict(tech='TLA+ model of the engine as current objects (EngineModel.tla) + history generator (Engine.tla: TLC random walks and exhaustive short histories) replayed on a real eval.PolicyEngine (InsertObject / DeleteObject / SetResources / ClearResources); recorded histories validated by TLC (EngineTrace.tla) against the model and against a fresh engine; design layer CacheDesign.tla (memoisation + invalidation as the code does them) model-checked for cache coherence, bound to the code by Peek events (every memoised verdict read through the hook VerifCachePeek after every operation)',
                text='Every CheckIfAllowed reply after every update of every explored history equals (a) the reference semantics on the current abstract objects and (b) the reply of a fresh engine built from the same objects; '
                     'every memoised verdict found in the real cache after every operation equals the reference on the current objects (CacheCoherent); operation outcomes (ok/error/no crash) equal the model; all histories of 3 operations over a 20-operation catalogue (thorough: also of 4 operations over a 12-operation catalogue) (delete + re-insert with other content for every kind, pod update re-declaring a named port, sibling pod with another template) after a cache-warming prefix are enumerated exhaustively, '
                     'long random walks and seeded random histories over a larger universe are sampled.', ref='6/C15',
                note='Trusted: TLC, Json module, EngineModel.tla as the reading of "current objects"; hooks VerifSnapshot (read-only: cache statistics, order of sortedAdminNetpols) and VerifCachePeek (read-only look-up of a memoised verdict). LRU eviction and goroutine-concurrent use are out of scope.'),
    'C18': dict(cat='exploration', tech='configuration space enumerated exhaustively by TLC (CliSpace.tla); each configuration run through the built k8snetpolicy binary and through the library calls named in the property; outcomes validated by TLC (CliTrace.tla)',
                text='For every configuration (command x -o format incl. invalid and absent x --exposure x --focusworkload x --fail x -q/-v x -f x directory kinds good/junk/severe/fatal/empty/ingress/admin/missing [x second directory]) on seeded directory sets: '
                     'stdout hash = hash of the library string, -f file = stdout, exit status != 0 <=> library error, ConnlistFromResourceInfos(scanned infos) = ConnlistFromDirPath. Exhaustive over the enumerated flag space; directories are samples.', ref='6/C18',
                note='Both sides of every comparison are real code; the specification supplies the configuration space and the acceptance relation. Directory contents are seeded samples of each kind.'),
    'C19': dict(tech='finite conflict space enumerated exhaustively by TLC (Conflict.tla), materialised and run through list and diff (dir1/dir2), outcomes validated by TLC (ConflictTrace.tla); design argument for detection inside the sort callback model-checked (SortConflict.tla)',
                text='Every case of the enumerated space (8 conflict kinds x sizes x document positions of the conflicting resources x 5 arrangement families of the other priorities; for pods of one owner with different labels also 0..3 further agreeing pods and whether the deviating pod comes first; plus control cases without conflict) must be rejected by list and by diff (either side) '
                     'with an error of the right class that names a conflicting resource, a fatal entry and no report; controls must pass. Exhaustive over the enumerated space only.', ref='6/C19',
                note='Trusted: TLC, Json module; the mapping of error texts to conflict classes in the harness (substring of the tool\'s own error constants). Sizes and arrangement families outside the enumerated space are not covered.'),
    'C16': dict(tech='Focus events (list with WithFocusWorkload for every workload name, namespace/name, shared names, absent names, ingress-controller) validated by TLC against the filter of the unfocused report of the same world (Obs.tla FocusMismatches)',
                text='For every replayed world and every candidate W the focused result must be exactly the entries of the unfocused real report whose source or destination matches W, with identical connections; an unknown W gives an empty result, a non-severe warning and no error.', ref='6/C16'),
    'C17': dict(tech='ReExpressWorkload action of Cluster.tla (8 kinds, replicas, bare pods with one owner) with the law "report equal modulo [Kind]" on real reports, plus the per-state peer-set predicate',
                text='For every re-expression edge the two real reports are equal per abstract workload; in every state the returned peers are exactly one per workload.', ref='6/C17'),
}

ENGINES = [
    dict(name='tlc', path='/verif/specs', serves_properties=sorted(CLAIMS), kind_free_text='TLA+ specifications checked/simulated by TLC 1.8; trace specifications validate ndjson traces recorded from the real code'),
    dict(name='vharness', path='/verif/harness', serves_properties=sorted(CLAIMS), kind_free_text='Go conformance harness (std-lib only) built with -tags verif against /repo: concretises abstract worlds, runs the real code, abstracts observations, records traces'),
]


def main():
    ids = [json.loads(l)['id'] for l in open(os.path.join(VERIF, 'properties.jsonl'))]
    hooks = subprocess.run(['git', '-C', '/repo', 'log', '--format=%h %s'], capture_output=True, text=True).stdout.splitlines()
    hook_commits = [l.split()[0] for l in hooks if l.split(' ', 1)[1].startswith('verif hooks')]
    checks = []
    for pid in ids:
        if pid not in CLAIMS:
            continue
        c = CLAIMS[pid]
        checks.append(dict(property_id=pid, quick_cmd='./check %s quick' % pid, thorough_cmd='./check %s thorough' % pid,
                           evidence_file='/verif/evidence/%s.json' % pid, replay_cmd_template='./check %s --replay {path}' % pid,
                           engine='tlc+vharness',
                           level_claimed=dict(category=c.get('cat', 'model_checking'), text=c['text'], design_ref='DESIGN.md section ' + c['ref']),
                           level_note=c.get('note', M1_NOTE), technique=c['tech']))
    na = [dict(property_id=i, reason='check not built yet (work in progress; planned procedure in DESIGN.md section 6)') for i in ids if i not in CLAIMS]
    m = dict(version=1,
             setup_cmd='./setup.sh',
             hooks=dict(guard='verif', enable='go build -tags verif (the harness module /verif/harness replaces github.com/np-guard/netpol-analyzer => /repo)',
                        baseline_off_cmd='/verif/baseline.sh', source_commits=hook_commits, add_only=True),
             engines=ENGINES, checks=checks,
             notes='Exit codes: 0 held, 1 VIOLATION, 2 no verdict (infrastructure). Known findings: /verif/known_findings.json. See DESIGN.md.',
             not_applicable=na)
    json.dump(m, open(os.path.join(VERIF, 'MANIFEST.json'), 'w'), indent=1)
    print('MANIFEST.json: %d checks, %d not_applicable' % (len(checks), len(na)))


if __name__ == '__main__':
    main()
