"""--replay for the checks whose cases are not abstract worlds: the recorded case is fed again through the harness
sub-command that produced it and the new recording is validated by the same trace specification."""
import glob, json, os
import vlib, m1
from vlib import Infra


def _tlc_string_line(prefix, obj):
    """A line as TLC prints it for PrintT(prefix \\o ToJson(obj))."""
    return json.dumps(prefix + ' ' + json.dumps(obj)) + '\n'


def _validate(module, shards, cfg=None):
    res = vlib.validate_traces(module, shards, cfg=cfg)
    return res['mismatches']


def replay(prop, payload):
    vlib.build_harness()
    kind = payload.get('kind')
    d = vlib.sub('replay')
    inp = os.path.join(d, 'case.txt')
    out = os.path.join(d, 'out')
    if kind == 'engine':
        ops = [e['o'] for e in payload['history'] if e['ev'] == 'Op'] + [dict(op='Sweep')]
        # sweeps are not part of the saved history: re-insert one after every operation (a superset of the original sweeps)
        seq = []
        for o in ops:
            seq.append(o)
            if o.get('op') != 'Sweep':
                seq.append(dict(op='Sweep'))
        open(inp, 'w').write(_tlc_string_line('HISTORY', seq))
        vlib.harness(['engine', '-histories', inp, '-out', out, '-shards', '1', '-seed', str(vlib.seed())])
        mm = _validate('EngineTrace', sorted(glob.glob(out + '/*.ndjson')))
    elif kind == 'connset':
        open(inp, 'w').write(_tlc_string_line('OPS', payload['ops']))
        M, NR = payload['start']['M'], payload['start']['NR']
        vlib.harness(['connset', '-ops', inp, '-M', str(M), '-NR', str(NR), '-out', out, '-shards', '1', '-seed', str(vlib.seed())])
        cfg = m1.connset_trace_cfg(M, NR)
        mm = _validate('ConnSetTrace', sorted(glob.glob(out + '/*.ndjson')), cfg=cfg)
    elif kind == 'conflict':
        open(inp, 'w').write(_tlc_string_line('CASE', payload['event']['case']))
        vlib.harness(['conflict', '-cases', inp, '-out', out, '-shards', '1'])
        mm = _validate('ConflictTrace', sorted(glob.glob(out + '/*.ndjson')))
    elif kind == 'pipeline':
        open(inp, 'w').write(_tlc_string_line('CASE', payload['event']['scn']))
        vlib.harness(['pipeline', '-cases', inp, '-out', out, '-shards', '1'])
        mm = _validate('PipelineTrace', sorted(glob.glob(out + '/*.ndjson')))
    elif kind == 'mutation':
        open(inp, 'w').write(_tlc_string_line('CASE', payload['event']['case']))
        args = ['mutate', '-cases', inp, '-out', out, '-shards', '1']
        if any(k.startswith('cli-') for k in payload['event']['runs']):
            args += ['-bin', vlib.build_cli()]
        vlib.harness(args)
        mm = _validate('MutationTrace', sorted(glob.glob(out + '/*.ndjson')))
    elif kind == 'cli':
        open(inp, 'w').write(_tlc_string_line('CASE', payload['event']['cfg']))
        vlib.harness(['cli', '-cases', inp, '-bin', vlib.build_cli(), '-out', out, '-shards', '1', '-seed', str(vlib.seed() * 100)])
        mm = _validate('CliTrace', sorted(glob.glob(out + '/*.ndjson')))
    elif kind == 'diffmerge':
        open(inp, 'w').write(json.dumps(payload['case']))
        vlib.harness(['diffmerge', '-case', inp, '-out', out])
        mm = _validate('DiffMergeTrace', sorted(glob.glob(out + '/*.ndjson')), cfg=m1.diffmerge_trace_cfg(payload['case']['N']))
    else:
        raise Infra('unknown replay kind %r' % kind)
    if mm:
        for (sh, m) in mm[:5]:
            print('  ' + vlib.short(m['m'], 600))
        return 1
    print('not reproduced on the current tree')
    return 0
