"""Shared machinery of the /verif checks: builds the Go conformance harness against /repo's current
working tree (hooks on), runs TLC (model checking, simulation, trace validation), turns MISMATCH lines
into verdicts, consults the committed known-findings file and writes evidence files.

Exit codes of a check: 0 = property held on everything explored; 1 = VIOLATION printed;
2 = no verdict possible (build failure, TLC error/timeout, vacuous run)."""
import atexit, glob, hashlib, json, os, re, shutil, subprocess, sys, time

VERIF = os.path.dirname(os.path.dirname(os.path.abspath(__file__)))
REPO = os.environ.get('VERIF_REPO', '/repo')
SPECS = os.path.join(VERIF, 'specs')
HARNESS = os.path.join(VERIF, 'harness')
NCPU = int(os.environ.get('VERIF_NCPU', '16'))
# deep set expressions of the reference need a large Java thread stack (StackOverflowError otherwise)
os.environ.setdefault('JAVA_TOOL_OPTIONS', '-Xss512m')

GOENV = dict(os.environ, GOFLAGS='-mod=mod', GOPROXY='off', GOSUMDB='off', GOTOOLCHAIN='local')

_scratch = None


class Infra(Exception):
    """Anything that prevents a verdict (exit 2)."""


def scratch():
    global _scratch
    if _scratch is None:
        base = '/dev/shm' if os.path.isdir('/dev/shm') else '/tmp'
        _scratch = os.path.join(base, 'verif-%d' % os.getpid())
        # scratch directories of checks that were killed (no atexit) are removed by the next run
        for d in glob.glob(os.path.join(base, 'verif-[0-9]*')):
            try:
                os.kill(int(d.rsplit('-', 1)[1]), 0)
            except (ProcessLookupError, ValueError):
                shutil.rmtree(d, ignore_errors=True)
            except PermissionError:
                pass
        os.makedirs(_scratch, exist_ok=True)
        if not os.environ.get('VERIF_KEEP_SCRATCH'):   # debugging aid: keep traces and TLC outputs
            atexit.register(lambda: shutil.rmtree(_scratch, ignore_errors=True))
    return _scratch


def sub(name):
    p = os.path.join(scratch(), name)
    os.makedirs(p, exist_ok=True)
    return p


def seed():
    try:
        return int(os.environ.get('VERIF_SEED', '1'))
    except ValueError:
        return 1


def run(cmd, timeout=None, env=None, cwd=None, check=False, stdout=subprocess.PIPE, stderr=subprocess.STDOUT, input=None):
    try:
        p = subprocess.run(cmd, timeout=timeout, env=env or os.environ, cwd=cwd, stdout=stdout, stderr=stderr,
                           input=input, text=True, errors='replace')
    except subprocess.TimeoutExpired as e:
        raise Infra('timeout after %ss: %s' % (timeout, ' '.join(cmd)[:200]))
    if check and p.returncode != 0:
        raise Infra('command failed (%d): %s\n%s' % (p.returncode, ' '.join(cmd)[:300], (p.stdout or '')[-3000:]))
    return p


# ----------------------------------------------------------------------------------------------
# building the code under test

def _harness_workdir():
    """The harness module is copied to scratch when the repo under test is not /repo (mutant self-test),
    because go.mod's replace directive names the repository path."""
    if REPO == '/repo':
        src = HARNESS
    else:
        src = sub('harness-src')
        shutil.copytree(HARNESS, src, dirs_exist_ok=True)
        gm = open(os.path.join(src, 'go.mod')).read().replace('=> /repo', '=> ' + REPO)
        open(os.path.join(src, 'go.mod'), 'w').write(gm)
    shutil.copyfile(os.path.join(REPO, 'go.sum'), os.path.join(src, 'go.sum'))
    return src


_built = {}


def build_harness():
    """go build -tags verif of the harness against REPO's working tree. Always rebuilt (Go's cache makes
    an unchanged tree cheap)."""
    if 'harness' in _built:
        return _built['harness']
    out = os.path.join(sub('bin'), 'vharness')
    p = run(['go', 'build', '-tags', 'verif', '-o', out, './cmd/vharness'], env=GOENV, cwd=_harness_workdir(), timeout=1500)
    if p.returncode != 0:
        raise Infra('harness does not build against %s:\n%s' % (REPO, p.stdout[-4000:]))
    _built['harness'] = out
    return out


def build_cli():
    if 'cli' in _built:
        return _built['cli']
    out = os.path.join(sub('bin'), 'k8snetpolicy')
    p = run(['go', 'build', '-o', out, './cmd/netpolicy'], env=GOENV, cwd=REPO, timeout=1500)
    if p.returncode != 0:
        raise Infra('CLI does not build:\n%s' % p.stdout[-4000:])
    _built['cli'] = out
    return out


def harness(args, timeout=3600, cwd=None):
    """Runs the harness in a scratch working directory (the engine writes cacheHitsLog.txt into cwd)."""
    exe = build_harness()
    env = dict(os.environ, VERIF_SCRATCH=sub('hs'))
    p = run([exe] + args, timeout=timeout, env=env, cwd=cwd or sub('cwd'))
    if p.returncode not in (0,):
        raise Infra('harness %s failed (%d):\n%s' % (args[0], p.returncode, p.stdout[-4000:]))
    return p.stdout


# ----------------------------------------------------------------------------------------------
# TLC

def _specdir():
    d = os.path.join(scratch(), 'specs')
    if not os.path.isdir(d):
        shutil.copytree(SPECS, d)
    return d


_COUNT = re.compile(r'(\d+) states generated, (\d+) distinct states found')


def tlc(module, cfg=None, args=(), timeout=1800, env=None, workers=None, outfile=None, tag=''):
    """Runs TLC on specs/<module>.tla in a scratch copy. Returns (stdout, generated, distinct)."""
    d = _specdir()
    meta = sub('meta-%s-%s-%d' % (module, tag, time.time_ns() % 10**9))
    cmd = ['tlc', '-metadir', meta, '-config', cfg or (module + '.cfg')]
    cmd += ['-workers', str(workers or NCPU)]
    cmd += list(args) + [module + '.tla']
    e = dict(os.environ)
    e.update(env or {})
    if outfile:
        with open(outfile, 'w') as f:
            try:
                p = subprocess.run(cmd, cwd=d, env=e, stdout=f, stderr=subprocess.STDOUT, timeout=timeout)
            except subprocess.TimeoutExpired:
                raise Infra('TLC timeout (%ss) on %s' % (timeout, module))
        out = open(outfile, errors='replace').read()
        rc = p.returncode
    else:
        p = run(cmd, cwd=d, env=e, timeout=timeout)
        out, rc = p.stdout, p.returncode
    shutil.rmtree(meta, ignore_errors=True)
    gen = dist = 0
    for m in _COUNT.finditer(out):
        gen, dist = int(m.group(1)), int(m.group(2))
    return out, gen, dist, rc


def has_tlc_error(text):
    """TLC's own errors start a line with 'Error:'; printed MISMATCH payloads (quoted strings) may contain the word."""
    return any(ln.startswith('Error:') for ln in text.splitlines())


def tlc_error_context(text):
    """The lines around TLC's own error messages (the state dump that follows them is useless here)."""
    lines = text.splitlines()
    out = []
    for i, ln in enumerate(lines):
        if ln.startswith('Error:') or ln.startswith('Reason:') or 'Attempted to' in ln:
            out += [l[:400] for l in lines[i:i + 12] if not l.startswith('"MISMATCH')]
            out.append('...')
        if len(out) > 80:
            break
    return '\n'.join(out) if out else text[-2000:]


def tlc_ok(out, rc):
    return rc == 0 and ('Model checking completed. No error has been found.' in out or 'Finished in' in out) and 'Error:' not in out


def parse_printed_json(out, prefix):
    """Lines printed by PrintT(prefix \\o ToJson(x)) come out as a quoted, escaped TLA+ string."""
    res = []
    for line in out.splitlines():
        line = line.strip()
        if line.startswith('"' + prefix + ' '):
            try:
                s = json.loads(line)  # TLA+ string escapes are JSON compatible for what ToJson emits
            except Exception:
                s = line[1:-1].replace('\\"', '"').replace('\\\\', '\\')
            try:
                res.append(json.loads(s[len(prefix) + 1:]))
            except Exception as ex:
                raise Infra('cannot parse %s line: %s (%s)' % (prefix, line[:300], ex))
    return res


_BOUNDARY = ('{"ev":"Init"', '{"ev":"Start"', '{"ev":"Conflict"', '{"ev":"Pipe"', '{"ev":"Mut"', '{"ev":"Cli"', '{"ev":"Case"')


def split_shards(shards, max_lines=700, min_bytes=1500000):
    """TLC loads a whole trace into memory (ndJsonDeserialize): large shards are cut into chunks at points where the trace
    specification's state is reset anyway (a World event that does not continue a behaviour; Init / Start events; any line of
    the one-event-per-case traces). A chunk is closed at the first such point after max_lines lines AND min_bytes bytes (traces
    of small events are not cut into thousands of JVM runs). Returns the chunk files (mismatch line numbers then refer to the chunk)."""
    out = []
    for sh in shards:
        n = sum(1 for _ in open(sh))
        if n <= max_lines or os.path.getsize(sh) <= min_bytes:
            out.append(sh)
            continue
        k = 0
        cur = None
        cnt = 0
        nbytes = 0
        with open(sh) as f:
            for ln in f:
                boundary = ln.startswith(_BOUNDARY) or (ln.startswith('{"ev":"World"') and '"chain":false' in ln[:400])
                if cur is None or (cnt >= max_lines and nbytes >= min_bytes and boundary):
                    if cur:
                        cur.close()
                    k += 1
                    path = '%s.c%03d.ndjson' % (sh[:-7] if sh.endswith('.ndjson') else sh, k)
                    cur = open(path, 'w')
                    out.append(path)
                    cnt = 0
                    nbytes = 0
                cur.write(ln)
                cnt += 1
                nbytes += len(ln)
        if cur:
            cur.close()
        os.remove(sh)
    return out


def validate_traces(module, shards, timeout=9000, cfg=None, extra_env=None):
    """Trace validation: one single-worker TLC process per (chunk of a) shard, NCPU at a time.
    Returns dict(mismatches=[(shard, dict)], states, lines, outputs)."""
    d = _specdir()
    shards = split_shards(list(shards))
    procs, results = [], []
    pending = list(shards)
    total_states = 0
    total_lines = 0
    mism = []
    t0 = time.time()

    def start(sh):
        meta = sub('meta-tr-%s' % hashlib.md5(sh.encode()).hexdigest()[:10])
        out = sh + '.tlcout'
        f = open(out, 'w')
        e = dict(os.environ, TRACE=sh, JAVA_TOOL_OPTIONS='-Xss512m -Xmx3g')
        e.update(extra_env or {})
        p = subprocess.Popen(['tlc', '-workers', '1', '-metadir', meta, '-config', cfg or (module + '.cfg'), module + '.tla'],
                             cwd=d, env=e, stdout=f, stderr=subprocess.STDOUT)
        return (p, sh, out, f, meta)

    running = []
    while pending or running:
        while pending and len(running) < NCPU:
            sh = pending.pop(0)
            if os.path.getsize(sh) == 0:
                continue
            running.append(start(sh))
        still = []
        for (p, sh, out, f, meta) in running:
            rc = p.poll()
            if rc is None:
                if time.time() - t0 > timeout:
                    p.kill()
                    raise Infra('trace validation timeout (%ss) on %s' % (timeout, sh))
                still.append((p, sh, out, f, meta))
                continue
            f.close()
            shutil.rmtree(meta, ignore_errors=True)
            text = open(out, errors='replace').read()
            nlines = sum(1 for _ in open(sh))
            m = None
            for m in _COUNT.finditer(text):
                pass
            if m is None or has_tlc_error(text) or rc != 0:
                raise Infra('TLC failed on trace %s (rc=%s):\n%s' % (sh, rc, tlc_error_context(text)))
            if int(m.group(2)) != nlines + 1:
                raise Infra('trace %s not fully consumed: %s distinct states for %d lines\n%s' % (sh, m.group(2), nlines, text[-2000:]))
            total_states += int(m.group(2))
            total_lines += nlines
            for mm in parse_printed_json(text, 'MISMATCH'):
                mism.append((sh, mm))
        running = still
        if running:
            time.sleep(0.05)
    return dict(mismatches=mism, states=total_states, lines=total_lines, shards=shards)


def trace_line(shard, lineno):
    with open(shard) as f:
        for i, ln in enumerate(f, 1):
            if i == lineno:
                return json.loads(ln)
    return None


def world_of(shard, lineno):
    """The World event governing line `lineno` of a shard (last World event at or before it)."""
    w = None
    with open(shard) as f:
        for i, ln in enumerate(f, 1):
            if i > lineno:
                break
            if ln.startswith('{"ev":"World"'):
                w = json.loads(ln)
    return w


# ----------------------------------------------------------------------------------------------
# verdicts, known findings, replay files, evidence

def load_known():
    p = os.path.join(VERIF, 'known_findings.json')
    if not os.path.exists(p):
        return []
    return json.load(open(p)).get('findings', [])


def save_replay(prop, payload):
    d = os.path.join(VERIF, 'replays', prop)
    os.makedirs(d, exist_ok=True)
    blob = json.dumps(payload, sort_keys=True)
    h = hashlib.sha1(blob.encode()).hexdigest()[:16]
    p = os.path.join(d, h + '.json')
    with open(p, 'w') as f:
        f.write(json.dumps(payload, indent=1, sort_keys=True))
    return p


class Verdict:
    """Collects violations for one property; matches them against open known findings by signature id."""

    def __init__(self, prop):
        self.prop = prop
        self.violations = []     # (what, replay path)
        self.known_hits = {}     # finding id -> count
        self.known = [k for k in load_known() if k.get('property') == prop and k.get('status') == 'open']

    def add(self, what, payload, signature=None):
        """signature: id of the known-finding signature this failing case matches (decided by the caller's
        classifier from the failing input), or None."""
        if signature is not None:
            for k in self.known:
                if k['id'] == signature:
                    self.known_hits[signature] = self.known_hits.get(signature, 0) + 1
                    return
        if len(self.violations) < 25:
            path = save_replay(self.prop, payload)
        else:
            path = '(not saved: more than 25 violations)'
        self.violations.append((what, path))

    def finish(self):
        for k in self.known:
            if k['id'] in self.known_hits:
                print('KNOWN-FINDING: property=%s %s [%s, %d case(s) this run]' % (self.prop, k['what'], k['id'], self.known_hits[k['id']]))
        seen = set()
        for what, path in self.violations[:25]:
            print('VIOLATION property=%s replay=%s' % (self.prop, path))
            if what not in seen:
                print('  ' + what[:600])
                seen.add(what)
        return 1 if self.violations else 0


def write_evidence(prop, tier, level, coverage, assumptions, wall, violations):
    # runs against a scratch worktree (VERIF_REPO, used to try seeded changes) never touch the committed evidence
    evdir = os.path.join(VERIF, 'evidence') if REPO == '/repo' else os.path.join('/dev/shm', 'verif-evidence-scratch')
    os.makedirs(evdir, exist_ok=True)
    ev = dict(property_id=prop, tier=tier, seed=seed(), level=level, coverage=coverage, assumptions=assumptions,
              wall_s=round(wall, 2), violations=violations)
    with open(os.path.join(evdir, prop + '.json'), 'w') as f:
        json.dump(ev, f, indent=1, sort_keys=True)
    return ev


def short(x, n=400):
    s = x if isinstance(x, str) else json.dumps(x, sort_keys=True)
    return s if len(s) <= n else s[:n] + '...'
