#!/bin/bash
# usage: seedrun.sh <seed-id> <check-id> [tier]   - runs one check against a scratch worktree of /repo with the seeded patch applied.
# The check runs from a snapshot of /verif (so that work in /verif can go on meanwhile); its evidence goes to /dev/shm (see vlib.write_evidence).
ID=$1; CHK=$2; TIER=${3:-quick}
WT=/tmp/seed/run-$ID-$$
SNAP=/dev/shm/vsnap-$ID-$$
git -C /repo worktree add -q --detach $WT HEAD || exit 2
git -C $WT apply /verif/seeded/$ID/patch.diff || { echo "patch does not apply"; git -C /repo worktree remove --force $WT; exit 2; }
mkdir -p $SNAP && rsync -a --exclude .git --exclude replays --exclude seeded /verif/ $SNAP/
VERIF_REPO=$WT $SNAP/check $CHK $TIER; RC=$?
git -C /repo worktree remove --force $WT
rm -rf $SNAP
exit $RC
