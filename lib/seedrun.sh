#!/bin/bash
# usage: seedrun.sh <seed-id> <check-id> [tier]   - runs one check against a scratch worktree of /repo with the seeded patch applied
ID=$1; CHK=$2; TIER=${3:-quick}
WT=/tmp/seed/run-$ID-$$
git -C /repo worktree add -q --detach $WT HEAD || exit 2
git -C $WT apply /verif/seeded/$ID/patch.diff || { echo "patch does not apply"; git -C /repo worktree remove --force $WT; exit 2; }
VERIF_REPO=$WT /verif/check $CHK $TIER; RC=$?
git -C /repo worktree remove --force $WT
exit $RC
