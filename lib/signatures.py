"""Signatures of known findings: predicates over the failing input. A failing case that matches the
signature of an *open* entry of known_findings.json is reported as KNOWN-FINDING, anything else as VIOLATION."""


def _wl_by_key(w, key):
    for wl in w['workloads']:
        if '%s/%s[%s]' % (wl['ns'], wl['name'], wl['kind']) == key:
            return wl
    return None


def _svc_selects(s, wl):
    return (not s['selNil']) and s['ns'] == wl['ns'] and all(wl['labels'].get(k) == v for k, v in s['selector'].items())


def d10b(m, w):
    """An Ingress backend `number: N` reaches a Service (selecting the reported workload) that has a port whose
    numeric targetPort is N although its port number is not N: the tool designates that port by its targetPort."""
    if not m or not m[0].startswith('C10'):
        return False
    wl = _wl_by_key(w, m[1]) if len(m) > 1 else None
    if wl is None:
        return False
    for g in w['ingresses']:
        if g['ns'] != wl['ns']:
            continue
        bes = ([] if g['defaultNil'] else [g['default']]) + list(g['rules'])
        for be in bes:
            if be['port']['kind'] != 'num':
                continue
            n = be['port']['num']
            for s in w['services']:
                if s['name'] == be['svc'] and _svc_selects(s, wl):
                    for sp in s['ports']:
                        tp = sp['targetPort']
                        if (not tp['nil']) and tp['kind'] == 'num' and tp['num'] == n and sp['port'] != n:
                            return True
    return False


def classify(prop, m, wev, tev):
    w = wev.get('world') if isinstance(wev, dict) else None
    if prop == 'C10' and w is not None and d10b(m, w):
        return 'D10b-ingress-number-matches-targetport'
    return None
