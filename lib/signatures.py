"""Signatures of known findings: predicates over the failing input. A failing case that matches the
signature of an *open* entry of known_findings.json is reported as KNOWN-FINDING, anything else as VIOLATION."""


def _wl_by_key(w, key):
    for wl in w['workloads']:
        if '%s/%s[%s]' % (wl['ns'], wl['name'], wl['kind']) == key:
            return wl
    return None


def _svc_selects(s, wl):
    return (not s['selNil']) and s['ns'] == wl['ns'] and all(wl['labels'].get(k) == v for k, v in s['selector'].items())


def d10b(m, w):
    """An Ingress backend `number: N` reaches a Service (selecting the reported workload) that has a port whose
    numeric targetPort is N although its port number is not N: the tool designates that port by its targetPort."""
    if not m or not m[0].startswith('C10'):
        return False
    wl = _wl_by_key(w, m[1]) if len(m) > 1 else None
    if wl is None:
        return False
    for g in w['ingresses']:
        if g['ns'] != wl['ns']:
            continue
        bes = ([] if g['defaultNil'] else [g['default']]) + list(g['rules'])
        for be in bes:
            if be['port']['kind'] != 'num':
                continue
            n = be['port']['num']
            for s in w['services']:
                if s['name'] == be['svc'] and _svc_selects(s, wl):
                    for sp in s['ports']:
                        tp = sp['targetPort']
                        if (not tp['nil']) and tp['kind'] == 'num' and tp['num'] == n and sp['port'] != n:
                            return True
    return False


def _canon_sel(sel):
    reqs = ['%s=%s' % (k, v) for k, v in sel['ml'].items()]
    for e in sel['ex']:
        if e['op'] == 'In' and len(e['vals']) == 1:
            reqs.append('%s=%s' % (e['key'], e['vals'][0]))
        else:
            reqs.append('%s %s %s' % (e['key'], e['op'], ','.join(sorted(e['vals']))))
    return tuple(sorted(reqs))


def _spelling(sel):
    import json
    return json.dumps(sel, sort_keys=True)


NAME_KEY = 'kubernetes.io/metadata.name'


def d8_equivalent_selector_spellings(w):
    """Two NetworkPolicy rule peers denote the same representative peer (equal requirements once a single-value In is
    read as equality and a nil namespaceSelector as 'the policy's namespace by name') but are spelled differently:
    exposure analysis keeps whichever comes first in the input."""
    seen = {}
    for np in w['netpols']:
        for d in ('ingress', 'egress'):
            for r in np[d]:
                for p in r['peers']:
                    if p['kind'] != 'pod':
                        continue
                    if p['nsNil']:
                        nskey = ('%s=%s' % (NAME_KEY, np['ns']),)
                        nsspell = 'nil:' + np['ns']
                    else:
                        nskey = _canon_sel(p['nsSel'])
                        nsspell = _spelling(p['nsSel'])
                    podkey = () if p['podNil'] else _canon_sel(p['podSel'])
                    podspell = 'nil' if p['podNil'] else _spelling(p['podSel'])
                    key = (nskey, podkey)
                    spell = (nsspell, podspell)
                    if key in seen and seen[key] != spell:
                        return True
                    seen.setdefault(key, spell)
    return False


def _synthetic_pods(wl):
    if wl['expr'] == 'bare':
        return [wl['name']]
    if wl['expr'] == 'pods':
        return ['%s-%cxq' % (wl['name'], chr(ord('p') + i)) for i in range(wl['podCount'])]
    n = 2 if (wl['kind'] not in ('DaemonSet', 'CronJob') and wl['replicas'] > 1) else 1
    return ['%s-%d' % (wl['name'], i) for i in range(1, n + 1)]


def d11_synthetic_pod_name_collision(w):
    """Two different workloads of one namespace map to the same (synthetic) pod name: the engine keys pods by
    namespace/name, so one workload shadows the other."""
    seen = {}
    for i, wl in enumerate(w['workloads']):
        for p in _synthetic_pods(wl):
            k = (wl['ns'], p)
            if k in seen and seen[k] != i:
                return True
            seen[k] = i
    return False


def classify(prop, m, wev, tev):
    w = wev.get('world') if isinstance(wev, dict) else None
    if prop == 'C10' and w is not None and d10b(m, w):
        return 'D10b-ingress-number-matches-targetport'
    if prop in ('C17', 'C01', 'C05') and w is not None and d11_synthetic_pod_name_collision(w):
        return 'D11-synthetic-pod-name-collision'
    if prop == 'C08' and w is not None and m and m[0] == 'C08-output-varies' and m[1].endswith('/true') and d8_equivalent_selector_spellings(w):
        return 'D8-exposure-equivalent-selectors-first-wins'
    return None
