"""Signatures of known findings: predicates over the failing input. A failing case that matches the
signature of an *open* entry of known_findings.json is reported as KNOWN-FINDING, anything else as VIOLATION."""


def classify(prop, m, wev, tev):
    return None
