#!/bin/bash
# usage: confirm_seed.sh <id> <seed-dir-with-patch.diff> <demo-test-file> <package-dir> <run-regexp>
# Confirms a seeded change in a fresh scratch worktree of /repo: applies, builds, runs the repository suite (must equal the
# baseline), runs the demonstration with the change (must fail) and without it (must pass). Removes the worktree afterwards.
set -u
export GOFLAGS=-mod=mod GOPROXY=off GOSUMDB=off GOTOOLCHAIN=local
ID=$1; SD=$2; DEMO=$3; PKG=$4; RUN=$5
WT=/tmp/seed/confirm-$ID
git -C /repo worktree remove --force $WT 2>/dev/null
git -C /repo worktree add -q --detach $WT HEAD || exit 2
cd $WT
mkdir -p SEEDED && cp -r $SD/. SEEDED/ 2>/dev/null; find SEEDED -name "*.go" -exec mv {} {}.txt \;
git apply $SD/patch.diff || { echo "PATCH DOES NOT APPLY"; exit 2; }
go build ./... || { echo "DOES NOT COMPILE"; exit 2; }
go test -json -vet=off -count=1 ./... > /tmp/seed/confirm-$ID.json 2>/dev/null
python3 - /tmp/seed/confirm-$ID.json <<'PY'
import json,sys
passed=set()
for line in open(sys.argv[1]):
    try: e=json.loads(line)
    except Exception: continue
    if e.get('Action')=='pass' and e.get('Test'): passed.add(e['Package']+'::'+e['Test'])
base=json.load(open('/root/.vp/BASELINE.json'))['stable_pass']
missing=[t for t in base if t not in passed]
print('SUITE with change: %d stable tests, missing %d'%(len(base),len(missing)))
for t in missing[:5]: print('   MISSING',t)
PY
rm -f test_outputs/*/actual_*
# a demonstration is a Go test file (copied into <package-dir>) or a shell script (run from the worktree root; PKG and RUN ignored)
if [[ "$DEMO" == *.sh ]]; then
  export BIN=/tmp/seed/confirm-$ID.bin
  bash SEEDED/$(basename $DEMO) > /tmp/seed/confirm-$ID.with 2>&1; W=$?
  git apply -R $SD/patch.diff
  bash SEEDED/$(basename $DEMO) > /tmp/seed/confirm-$ID.without 2>&1; WO=$?
  rm -f $BIN
else
cp $DEMO $PKG/zz_seeded_demo_test.go
go test -vet=off -count=1 -run "$RUN" ./$PKG/ > /tmp/seed/confirm-$ID.with 2>&1; W=$?
git apply -R $SD/patch.diff
go test -vet=off -count=1 -run "$RUN" ./$PKG/ > /tmp/seed/confirm-$ID.without 2>&1; WO=$?
fi
echo "DEMO with change: exit $W (expect non-zero); without: exit $WO (expect 0)"
tail -3 /tmp/seed/confirm-$ID.with | cut -c1-200
cd /; git -C /repo worktree remove --force $WT; rm -f /tmp/seed/confirm-$ID.json
