"""Pipeline for machine M1 (manifest set under edit): TLC walks Cluster.tla, the harness replays every
state of every behaviour on the real tool (plus larger random worlds), ReplayTrace validates the recorded
observations against the reference and the edge laws."""
import collections, glob, hashlib, json, os, time
import vlib
from vlib import Infra


def write_cfg(name, consts, spec='Spec', extra=''):
    d = vlib._specdir()
    lines = ['CONSTANTS'] + ['  %s = %s' % (k, v) for k, v in consts.items()]
    lines += ['SPECIFICATION ' + spec, 'CHECK_DEADLOCK FALSE', extra]
    with open(os.path.join(d, name), 'w') as f:
        f.write('\n'.join(lines) + '\n')
    return name


def tla_bool(b):
    return 'TRUE' if b else 'FALSE'


# ConnSetImpl.tla: the design as built (every ingredient present)
CONNSET_ASBUILT = dict(CanonOnAdd='TRUE', CanonOnUnion='TRUE', AddSkipsWhenAll='TRUE', ContainedChecksNames='TRUE',
                       SubtractChecksContained='TRUE', IsAllByRangeOnly='TRUE', IntersectDropsEmpty='TRUE')


DIFFMERGE_ASBUILT = dict(KeyHasBothConns='TRUE', KeySeparated='TRUE', SecondFromOwn='TRUE', MergeTouching='TRUE')


def diffmerge_trace_cfg(N):
    return write_cfg('DiffMergeTrace_N%d.cfg' % N, dict(DIFFMERGE_ASBUILT, N=N), spec='TSpec', extra='POSTCONDITION TraceAccepted')


def connset_trace_cfg(M, NR):
    return write_cfg('ConnSetTrace_M%d_NR%d.cfg' % (M, NR), dict(CONNSET_ASBUILT, M=M, NR=NR), spec='TSpec', extra='POSTCONDITION TraceAccepted')


def simulate_cluster(tag, num, depth, admin=False, ingr=False, maxwl=4, maxnp=3, maxrules=2, maxanp=3, workers=4, timeout=1500):
    """Runs `tlc -simulate` on Cluster.tla; returns (path of output with BEHAVIOUR lines, states, behaviours)."""
    cfg = write_cfg('Cluster_%s.cfg' % tag, dict(Sim='TRUE', Admin=tla_bool(admin), Ingr=tla_bool(ingr), MaxWl=maxwl, MaxNP=maxnp,
                                                  MaxRules=maxrules, MaxANP=maxanp, MaxSteps=depth))
    out = os.path.join(vlib.sub('sim'), 'cluster_%s.out' % tag)
    per = max(1, num // workers)
    text, gen, dist, rc = vlib.tlc('Cluster', cfg, ['-simulate', 'num=%d' % per, '-depth', str(depth + 3), '-seed', str(vlib.seed())],
                                   timeout=timeout, workers=workers, outfile=out, tag=tag)
    nb = sum(1 for ln in open(out, errors='replace') if ln.startswith('"BEHAVIOUR '))
    states = 0
    for ln in text.splitlines():
        if ln.startswith('The number of states generated:'):
            states = int(ln.split(':')[1].strip())
    if rc != 0 or vlib.has_tlc_error(text) or nb == 0:
        raise Infra('Cluster simulation failed (rc=%s, behaviours=%d):\n%s' % (rc, nb, '\n'.join(l for l in text.splitlines() if not l.startswith('"BEHAVIOUR'))[-3000:]))
    return out, states, nb


def check_laws_on_reference(tag, num, depth, admin=False, workers=8, timeout=1500):
    """LawsCheck: the metamorphic laws hold for the reference semantics on Cluster's behaviours."""
    cfg = write_cfg('LawsCheck_%s.cfg' % tag, dict(Sim='TRUE', Admin=tla_bool(admin), Ingr='FALSE', MaxWl=4, MaxNP=3, MaxRules=2, MaxANP=3,
                                                    MaxSteps=depth), extra='PROPERTY LawsHold')
    per = max(1, num // workers)
    out = os.path.join(vlib.sub('sim'), 'laws_%s.out' % tag)
    text, gen, dist, rc = vlib.tlc('LawsCheck', cfg, ['-simulate', 'num=%d' % per, '-depth', str(depth + 3), '-seed', str(vlib.seed())],
                                   timeout=timeout, workers=workers, outfile=out, tag=tag)
    states = 0
    for ln in text.splitlines():
        if ln.startswith('The number of states generated:'):
            states = int(ln.split(':')[1].strip())
    if 'is violated' in text or vlib.has_tlc_error(text) or rc != 0:
        msg = '\n'.join(l for l in text.splitlines() if not l.startswith('"BEHAVIOUR'))[-3000:]
        raise Infra('a law of Laws.tla does not hold on the reference (specification error, not a verdict about the code):\n' + msg)
    return states


def record(tag, cases=None, profile=None, n=0, ops='list', shards=None, bin=None, timeout=3000, extra=()):
    out = vlib.sub('tr-' + tag)
    args = ['worlds', '-out', out, '-seed', str(vlib.seed()), '-shards', str(shards or vlib.NCPU), '-ops', ops]
    if cases:
        args += ['-cases', cases]
    if profile:
        args += ['-profile', profile, '-n', str(n)]
    if bin:
        args += ['-bin', bin]
    args += list(extra)
    vlib.harness(args, timeout=timeout)
    return sorted(glob.glob(os.path.join(out, 'shard*.ndjson')))


def trace_stats(shards):
    """Measured coverage of a set of recorded traces."""
    st = collections.Counter()
    hashes, nontrivial = set(), set()
    labels = collections.Counter()
    samples = []
    for sh in shards:
        cur = None
        for ln in open(sh):
            if ln.startswith('{"ev":"World"'):
                e = json.loads(ln)
                cur = e
                st['worlds'] += 1
                labels[e['label']] += 1
                if e['chain']:
                    st['edges'] += 1
                else:
                    st['behaviours'] += 1
                cur['_h'] = hashlib.sha1(json.dumps(e['world'], sort_keys=True).encode()).hexdigest()
                hashes.add(cur['_h'])
            else:
                st['events'] += 1
                if ln.startswith('{"ev":"List"'):
                    e = json.loads(ln)
                    o = e['obs']
                    st['list:' + o['outcome']] += 1
                    if o['outcome'] == 'ok' and cur is not None:
                        conns = o['conns']
                        nonall = sum(1 for c in conns if not c['all'])
                        wl = len(cur['world']['workloads'])
                        ips = sum(1 for p in o['peers'] if p['t'] == 'ip')
                        npairs = wl * (wl - 1) + 2 * wl * ips
                        if conns and (nonall > 0 or len(conns) < npairs):
                            nontrivial.add(cur['_h'])
                            if len(samples) < 2:
                                samples.append(dict(label=cur['label'], world=cur['world'],
                                                    report=[[c['src']['key'], c['dst']['key'], 'all' if c['all'] else c['pp']] for c in conns[:6]]))
    return dict(counts=dict(st), distinct_worlds=len(hashes), distinct_nontrivial=len(nontrivial), labels=dict(labels), samples=samples)


def world_has_admin(w):
    return len(w['anps']) > 0 or not w['banp']['nil']


def owner_of(m, world_ev):
    """Which property a mismatch belongs to."""
    kind = m[0]
    w = world_ev['world'] if world_ev else None
    if kind.startswith('C05'):
        return 'C05'
    if kind.startswith('C17'):
        return 'C17'
    if kind == 'C14-C17-law-equal':
        lbl = m[1]
        return 'C17' if lbl == 'ReExpressWorkload' else ('C02' if lbl == 'SwapANPs' else 'C14')
    if kind.startswith('C14'):
        return 'C14'
    for p in ('C03', 'C04', 'C06', 'C07', 'C08', 'C09', 'C10', 'C16', 'C18', 'C13'):
        if kind.startswith(p):
            return p
    if kind == 'panic':
        return 'C12'
    if kind in ('conn', 'unexpected-error', 'unknown-peer', 'conns-without-workloads'):
        return 'C02' if (w and world_has_admin(w)) else 'C01'
    return None
