"""One check per property. Each returns the process exit code (0 held / 1 violation)."""
import collections, glob, json, os, sys, time
import vlib, m1
from vlib import Infra

CHECKS = {}


def check(prop):
    def deco(f):
        CHECKS[prop] = f
        return f
    return deco


# ---------------------------------------------------------------------------------------------------
# known-finding signatures: predicates over the failing input (world + mismatch), see known_findings.json

def classify(prop, m, wev, tev):
    """Returns the id of the known-finding signature the failing case matches, or None."""
    import signatures
    return signatures.classify(prop, m, wev, tev)


# ---------------------------------------------------------------------------------------------------
# M1 family

M1_ASSUME = [
    'TLC 1.8 and the CommunityModules Json module are trusted',
    'specs/Ref.tla is a faithful reading of the semantics stated in the property',
    'harness abstraction (port chunks / address classes) refuses unaligned boundaries instead of guessing (reported as a mismatch)',
    'universe bounded: <=4 workloads, <=3 policies x <=2 rules x <=3 peers/ports from curated catalogues in TLC-generated behaviours; '
    'larger seeded random worlds (up to 7 workloads, 6 policies, M=9 port chunks, 16 address classes) in direction B',
]


def m1_pipeline(prop, tier, sims, gens, ops='list', laws=False, bin=False, owned=None, level_note='', extra_cases=(), extra_cov=None, extra_verdict=None):
    """sims: list of dict(tag,num,depth,admin,ingr); gens: list of (profile, n).
    owned: set of property ids whose mismatches this check reports (default {prop})."""
    t0 = time.time()
    owned = owned or {prop}
    vlib.build_harness()
    clibin = vlib.build_cli() if bin else None
    shards = []
    sim_states = 0
    behaviours = 0
    law_states = 0
    for s in sims:
        out, st, nb = m1.simulate_cluster(s['tag'], s['num'], s['depth'], admin=s.get('admin', False), ingr=s.get('ingr', False),
                                          maxwl=s.get('maxwl', 4), maxnp=s.get('maxnp', 3), maxrules=s.get('maxrules', 2),
                                          maxanp=s.get('maxanp', 3))
        sim_states += st
        behaviours += nb
        shards += m1.record('sim-' + s['tag'], cases=out, ops=ops, bin=clibin)
        if laws:
            law_states += m1.check_laws_on_reference(s['tag'], max(50, s['num'] // 4), s['depth'], admin=s.get('admin', False))
    for (profile, n) in gens:
        shards += m1.record('gen-' + profile.replace(',', '_'), profile=profile, n=n, ops=ops, bin=clibin)
    for (tag, path) in extra_cases:
        shards += m1.record('x-' + tag, cases=path, ops=ops, bin=clibin)
    # the reproducer of every OPEN known finding of this property is always replayed: its KNOWN-FINDING line is printed by
    # every run on a tree that still has the defect, and disappears (without any edit of the findings file) once it is repaired
    for fid, path in KNOWN_REPRODUCERS.get(prop, []):
        shards += m1.record('known-' + fid, cases=os.path.join(vlib.VERIF, path), ops=ops, bin=clibin)
    res = vlib.validate_traces('ReplayTrace', shards)
    shards = res['shards']
    stats = m1.trace_stats(shards)
    v = vlib.Verdict(prop)
    seen_kinds = collections.Counter()
    other = collections.Counter()
    groups = collections.OrderedDict()
    for (sh, mm) in res['mismatches']:
        groups.setdefault((sh, mm['line']), []).append(mm['m'])
    for (sh, line), ms in groups.items():
        wev = vlib.world_of(sh, line)
        tev = vlib.trace_line(sh, line)
        mine = []
        for m in ms:
            owner = m1.owner_of(m, wev)
            if owner in owned:
                mine.append(m)
            else:
                other[owner] += 1
        if not mine:
            continue
        # one violation per rejected event; it is a known finding only if every mismatch of the event matches a signature
        sigs = [classify(prop, m, wev, tev) for m in mine]
        unexplained = [m for m, sg in zip(mine, sigs) if sg is None or not any(k['id'] == sg for k in v.known)]
        for m in mine:
            seen_kinds[m[0]] += 1
        if unexplained:
            m = unexplained[0]
            v.add('%s: %s' % (m[0], vlib.short(m[1:], 500)),
                  dict(property=prop, kind='m1', mismatches=mine[:10], world_event=wev, trace_event=tev, ops=ops))
        else:
            v.add('', None, signature=sigs[0])
    if extra_verdict:
        extra_cov = dict(extra_cov or {}, **extra_verdict(v))
    rc = v.finish()
    if other:
        print('note: mismatches owned by other properties were seen and are reported by their checks: %s' % dict(other))
    cov = dict(states=sim_states + law_states + res['states'], transitions=stats['counts'].get('edges', 0) + res['lines'],
               traces_validated_against_impl=stats['counts'].get('behaviours', 0),
               samples=stats['samples'] or [dict(note='no non-trivial sample')],
               evaluations=stats['counts'].get('worlds', 0), distinct_nontrivial=stats['distinct_nontrivial'],
               distinct_worlds=stats['distinct_worlds'],
               rule='cases = states of Cluster.tla behaviours generated by `tlc -simulate` (every state of every behaviour is replayed '
                    'on the real tool) plus seeded random worlds; distinct = distinct abstract worlds (hash); non-trivial = the real '
                    'report is non-empty and either contains a partial (not all-ports) entry or lacks some peer pair',
               tlc_simulation_states=sim_states, tlc_behaviours=behaviours, reference_law_check_states=law_states,
               trace_events_validated=res['lines'], trace_validation_states=res['states'],
               action_labels=stats['labels'], list_outcomes={k: c for k, c in stats['counts'].items() if k.startswith('list:')},
               mismatch_kinds=dict(seen_kinds), known_findings_hit=v.known_hits, exhaustive=False)
    if extra_cov:
        cov.update(extra_cov)
        cov['states'] += extra_cov.get('design_layer_distinct_states', 0)
    if stats['counts'].get('worlds', 0) == 0 or stats['distinct_nontrivial'] < 2:
        raise Infra('vacuous run: %s' % stats['counts'])
    vlib.write_evidence(prop, tier, 'model_checking', cov, M1_ASSUME + ([level_note] if level_note else []), time.time() - t0, len(v.violations))
    print('%s %s: %d worlds (%d distinct, %d non-trivial), %d trace events validated by TLC, %d violation(s), %.0fs'
          % (prop, tier, stats['counts'].get('worlds', 0), stats['distinct_worlds'], stats['distinct_nontrivial'], res['lines'],
             len(v.violations), time.time() - t0))
    return rc


KNOWN_REPRODUCERS = {'C10': [('D10b', 'known/D10b.cases')], 'C17': [('D11', 'known/D11.cases')], 'C08': [('D8', 'known/D8.cases')]}


def scale(tier, q, t):
    return q if tier == 'quick' else t


@check('C01')
def c01(tier):
    return m1_pipeline('C01', tier,
                       sims=[dict(tag='np', num=scale(tier, 400, 6000), depth=18)],
                       gens=[('np,np-out,np-big,np-named', scale(tier, 1500, 40000))])


@check('C04')
def c04(tier):
    return m1_pipeline('C04', tier, ops='list,diff', extra_cov=diff_merge(tier), extra_verdict=lambda v: diff_merge_conformance(tier, v),
                       sims=[dict(tag='np', num=scale(tier, 250, 2000), depth=20),
                             dict(tag='adm', num=scale(tier, 100, 1000), depth=20, admin=True, maxrules=3)],
                       gens=[('np,np-out,admin,np-big', scale(tier, 900, 6000))])


def diff_merge(tier):
    """Design layer of C04 (DiffMerge.tla): refine -> diffMap -> group by (peer, conn1, conn2) -> merge touching ranges -> classify, as
    pkg/netpol/diff/diff.go does it, for every pair of partitions of the address space with every assignment of connection values and
    every choice of group representatives (Go map order). Each ingredient of the design must be necessary (refuted when dropped)."""
    base = dict(N=5 if tier == 'thorough' else 4, KeyHasBothConns='TRUE', KeySeparated='TRUE', SecondFromOwn='TRUE', MergeTouching='TRUE')
    inv = 'INVARIANT PointwiseExact\nINVARIANT Maximal'
    cfg = m1.write_cfg('DiffMerge_asbuilt.cfg', base, extra=inv)
    text, gen, dist, rc = vlib.tlc('DiffMerge', cfg, timeout=6000, tag='dm')
    if 'is violated' in text:
        raise Infra('DiffMerge.tla (as built): the transcribed algorithm is not point-wise exact (specification-level finding, not a verdict about the code):\n'
                    + vlib.tlc_error_context(text))
    if rc != 0 or vlib.has_tlc_error(text) or 'No error has been found' not in text:
        raise Infra('DiffMerge.tla run failed:\n' + vlib.tlc_error_context(text))
    refuted = []
    for flag in ('KeyHasBothConns', 'KeySeparated', 'SecondFromOwn', 'MergeTouching'):
        cfg = m1.write_cfg('DiffMerge_no%s.cfg' % flag, dict(base, N=4, **{flag: 'FALSE'}), extra=inv)
        t2, g2, d2, rc2 = vlib.tlc('DiffMerge', cfg, timeout=900, tag='dmm' + flag)
        if ' is violated' not in t2:
            raise Infra('DiffMerge.tla: dropping %s is not refuted -- the invariants would be vacuous:\n%s' % (flag, vlib.tlc_error_context(t2)))
        refuted.append(flag + '=FALSE')
    return dict(diff_merge_design_layer='DiffMerge.tla: DisjointPeerIPMap / RefineConnListByDisjointPeers / diffMap / mergeIPblocks (group key peer;conn1;conn2, '
                                        'MergePeerIPList, representative = first member in map order) / classification transcribed; for EVERY pair of partitions of %d addresses '
                                        'into ranges with a connection value in {A, B, none} per range and every choice of representatives the entries are point-wise exact '
                                        '(one covering entry of the right type carrying exactly c1 and c2) and maximal' % base['N'],
                diff_merge_distinct_states=dist, diff_merge_exhaustive=True, diff_merge_refuted_variants=refuted)


def diff_merge_conformance(tier, v):
    """Binding of DiffMerge.tla to the code: the real ConnDiffFromDirPaths is run on inputs of the specification (every pair of
    partitions of 4 addresses; thorough: a sample of the pairs over 5 addresses as well) and DiffMergeTrace.tla accepts a case iff the
    recorded ip-block entries are exactly DiffMerge!Out (same ranges, connections, types)."""
    runs = [(4, 0)] + ([(5, 150000)] if tier == 'thorough' else [])
    cases = lines = 0
    drift = []
    for N, sample in runs:
        d = vlib.sub('dm-N%d' % N)
        vlib.harness(['diffmerge', '-N', str(N), '-sample', str(sample), '-out', d, '-seed', str(vlib.seed())])
        res = vlib.validate_traces('DiffMergeTrace', sorted(glob.glob(d + '/*.ndjson')), cfg=m1.diffmerge_trace_cfg(N))
        lines += res['lines']
        groups = collections.OrderedDict()
        for (sh, mm) in res['mismatches']:
            groups.setdefault((sh, mm['line']), []).append(mm['m'])
        for (sh, line), ms in groups.items():
            ev = vlib.trace_line(sh, line)
            v.add('%s: %s' % (ms[0][0], vlib.short(ms[0][1:], 500)), dict(property='C04', kind='diffmerge', mismatches=ms[:5], case=ev))
        for sh in res['shards']:
            cases += sum(1 for ln in open(sh) if '"outcome":"ok"' in ln)
            if os.path.exists(sh + '.tlcout'):
                drift += vlib.parse_printed_json(open(sh + '.tlcout', errors='replace').read(), 'DRIFT')
    if cases == 0:
        raise Infra('vacuous run: no DiffMerge case was analysed by the real diff')
    if drift:
        # not a verdict: point-wise right entries whose ranges are merged otherwise than DiffMerge.tla predicts
        print('DESIGN-DRIFT: %d case(s) whose ip-block entries are not the set DiffMerge.tla predicts (first: %s); the design-level proof '
              'no longer covers this code - update DiffMerge.tla' % (len(drift), vlib.short(drift[0], 400)))
    return dict(diff_merge_cases_run_on_real_diff=lines, diff_merge_cases_analysed_ok=cases, diff_merge_cases_following_design=lines - len(drift),
                diff_merge_binding='every input of DiffMerge.tla over 4 addresses (36,864 pairs of partitions, alternating egress / ingress) written as two manifest directories '
                                   'and analysed by ConnDiffFromDirPaths; DiffMergeTrace.tla judges the recorded ip-block entries (exact ranges) by the C04 statement point by point and reports entries that differ from DiffMerge!Out as design drift')


def ip_partition(tier):
    """Design layer of C05 (IPPartition.tla): GetReferencedIPBlocks + DisjointIPBlocks / addIntervalToList, one action per loop iteration,
    every order sort.Slice may produce. As built: the result is a partition into single ranges that refines every rule block, for every
    sequence of ipBlock peers of the bound; without the Split of referenced blocks, or without the sort, TLC must find a counterexample."""
    base = dict(N=8, MaxRefs=2, SplitReferenced='TRUE', SortBySize='TRUE')
    inv = 'INVARIANT Disjoint\nINVARIANT RangesOnly\nINVARIANT Covers\nINVARIANT Refines'
    consts = dict(base, N=16) if tier == 'thorough' else base
    cfg = m1.write_cfg('IPPartition_asbuilt.cfg', consts, extra=inv)
    text, gen, dist, rc = vlib.tlc('IPPartition', cfg, timeout=3000, tag='ipp')
    if 'is violated' in text:
        raise Infra('IPPartition.tla (as built): the transcribed algorithm breaks its invariant (specification-level finding, not a verdict about the code):\n'
                    + vlib.tlc_error_context(text))
    if rc != 0 or vlib.has_tlc_error(text) or 'No error has been found' not in text:
        raise Infra('IPPartition.tla run failed:\n' + vlib.tlc_error_context(text))
    refuted = []
    for flag in ('SplitReferenced', 'SortBySize'):
        cfg = m1.write_cfg('IPPartition_no%s.cfg' % flag, dict(base, **{flag: 'FALSE'}), extra=inv)
        t2, g2, d2, rc2 = vlib.tlc('IPPartition', cfg, timeout=900, tag='ippm' + flag)
        if ' is violated' not in t2:
            raise Infra('IPPartition.tla: dropping %s is not refuted -- the invariants would be vacuous:\n%s' % (flag, vlib.tlc_error_context(t2)))
        refuted.append(flag + '=FALSE')
    return dict(ip_partition_design_layer='IPPartition.tla: GetReferencedIPBlocks + netset.DisjointIPBlocks/addIntervalToList transcribed loop by loop; for every sequence of '
                                          '%d ipBlock peers (aligned CIDRs over %d addresses, up to two aligned excepts) and every order sort.Slice may produce, the IP peers are pairwise disjoint '
                                          'single ranges that cover the space and lie inside or outside every rule block' % (consts['MaxRefs'], consts['N']),
                ip_partition_distinct_states=dist, ip_partition_exhaustive=True, ip_partition_refuted_variants=refuted)


@check('C05')
def c05(tier):
    design_cov = ip_partition(tier)
    return m1_pipeline('C05', tier, extra_cov=design_cov,
                       sims=[dict(tag='np', num=scale(tier, 200, 2500), depth=18),
                             dict(tag='adm', num=scale(tier, 150, 2500), depth=20, admin=True, maxrules=3),
                             dict(tag='ing', num=scale(tier, 150, 2500), depth=22, ingr=True)],
                       gens=[('np,np-out,np-big,admin,admin-big', scale(tier, 1500, 15000))])


@check('C06')
def c06(tier):
    return m1_pipeline('C06', tier, ops='list,exposure',
                       sims=[dict(tag='np', num=scale(tier, 300, 2500), depth=20)],
                       gens=[('np,np-expo,np-expo,np-named', scale(tier, 900, 8000))])


@check('C07')
def c07(tier):
    return m1_pipeline('C07', tier, ops='list,exposure',
                       sims=[dict(tag='np', num=scale(tier, 300, 2500), depth=20)],
                       gens=[('np,np-expo,np-expo,np-named', scale(tier, 900, 8000))])


@check('C08')
def c08(tier):
    return m1_pipeline('C08', tier, ops='list,determinism',
                       sims=[dict(tag='np', num=scale(tier, 60, 1000), depth=20),
                             dict(tag='ing', num=scale(tier, 30, 500), depth=22, ingr=True, admin=True, maxrules=3)],
                       gens=[('np,np-out,np-big,admin,np-shared', scale(tier, 400, 6000))],
                       level_note='Go map-iteration orders are sampled (2 repeats x 4 layouts per command/format), not enumerated; layouts: canonical, seeded split/permutation over nested directories with List wrapping, and permutation of semantically unordered rule/peer/port lists')


@check('C09')
def c09(tier):
    return m1_pipeline('C09', tier, ops='list,formats',
                       sims=[dict(tag='np', num=scale(tier, 100, 1500), depth=20),
                             dict(tag='ing', num=scale(tier, 50, 800), depth=22, ingr=True, admin=True, maxrules=3)],
                       gens=[('np,np-out,np-big,admin', scale(tier, 500, 8000))],
                       level_note='the parsers of package formats (harness) are trusted; the specification supplies the worlds and the acceptance relation')


@check('C10')
def c10(tier):
    return m1_pipeline('C10', tier,
                       sims=[dict(tag='ing', num=scale(tier, 500, 5000), depth=22, ingr=True),
                             dict(tag='ingadm', num=scale(tier, 150, 2000), depth=24, ingr=True, admin=True, maxrules=3)],
                       gens=[])


@check('C14')
def c14(tier):
    return m1_pipeline('C14', tier, laws=True,
                       sims=[dict(tag='np', num=scale(tier, 500, 5000), depth=20)], gens=[])


@check('C16')
def c16(tier):
    return m1_pipeline('C16', tier, ops='list,focus',
                       sims=[dict(tag='np', num=scale(tier, 150, 1500), depth=18),
                             dict(tag='ing', num=scale(tier, 300, 2000), depth=26, ingr=True)],
                       gens=[('np-shared,admin,np-out', scale(tier, 900, 6000))])


@check('C17')
def c17(tier):
    return m1_pipeline('C17', tier, laws=True,
                       sims=[dict(tag='np', num=scale(tier, 300, 3000), depth=18),
                             dict(tag='adm', num=scale(tier, 150, 1500), depth=18, admin=True, maxrules=3)],
                       gens=[('np,admin,np-collide', scale(tier, 900, 8000))])


def admin_layer(tier):
    """Design layer of C02: the Allowed/Denied/Pass bookkeeping refines first-match semantics for every state of the bound;
    returns (path of sampled worlds, distinct states)."""
    consts = dict(NPts=2, MaxANP=2, MaxRules=2, MaxBRules=scale(tier, 2, 2), SampleOneIn=scale(tier, 6000, 1500))
    if tier == 'thorough':
        consts = dict(NPts=3, MaxANP=2, MaxRules=2, MaxBRules=1, SampleOneIn=15000)
    cfg = m1.write_cfg('AdminLayer_run.cfg', consts, extra='INVARIANT Refines\nINVARIANT Sample')
    out = os.path.join(vlib.sub('sim'), 'adminlayer.out')
    text, gen, dist, rc = vlib.tlc('AdminLayer', cfg, timeout=3000, outfile=out, tag='al')
    if 'is violated' in text:
        raise Infra('AdminLayer.tla: the transcribed bookkeeping does not refine first-match semantics (specification-level finding, not a verdict about the code):\n'
                    + vlib.tlc_error_context(text))
    if rc != 0 or vlib.has_tlc_error(text) or 'No error has been found' not in text:
        raise Infra('AdminLayer.tla run failed:\n' + vlib.tlc_error_context(text))
    return out, dist


@check('C02')
def c02(tier):
    al_out, al_states = admin_layer(tier)
    return m1_pipeline('C02', tier, laws=True, ops='list,eval',
                       sims=[dict(tag='adm', num=scale(tier, 300, 2500), depth=22, admin=True, maxrules=3)],
                       gens=[('admin,admin-big', scale(tier, 1000, 12000))],
                       extra_cases=[('adminlayer', al_out)],
                       extra_cov=dict(design_layer='AdminLayer.tla: Impl (UpdateWithRuleConns / CollectANPConns / DeterminesAllConns / three-way switch / CollectAllowedConnsFromNetpols / CollectConnsFromBANP) '
                                                   '= first-match reference for every state of the bound', design_layer_distinct_states=al_states, design_layer_exhaustive=True),
                       owned={'C02', 'C03'})


def admin_layer_small():
    """A small bound of AdminLayer.tla, sampled densely: worlds in which several ANPs, a NetworkPolicy and a BANP all speak about the same pair."""
    cfg = m1.write_cfg('AdminLayer_small.cfg', dict(NPts=2, MaxANP=2, MaxRules=1, MaxBRules=1, SampleOneIn=3), extra='INVARIANT Refines\nINVARIANT Sample')
    out = os.path.join(vlib.sub('sim'), 'adminlayer_small.out')
    text, gen, dist, rc = vlib.tlc('AdminLayer', cfg, timeout=1500, outfile=out, tag='als')
    if rc != 0 or vlib.has_tlc_error(text) or 'No error has been found' not in text:
        raise Infra('AdminLayer.tla (small bound) failed:\n' + vlib.tlc_error_context(text))
    return out, dist


@check('C03')
def c03(tier):
    al_out, al_states = admin_layer_small()
    return m1_pipeline('C03', tier, ops='list,eval,evalcli', bin=True, extra_cases=[('adminlayer', al_out)],
                       sims=[dict(tag='adm', num=scale(tier, 150, 1200), depth=24, admin=True, maxnp=2, maxrules=3),
                             dict(tag='np', num=scale(tier, 50, 600), depth=18)],
                       gens=[('np,admin,admin,pods,pods', scale(tier, 700, 5000))])


# ---------------------------------------------------------------------------------------------------
# C11: connection-set register machine (machine M3)

def connset_sequences(tag, sim, small, maxsteps, M, NR, num=0, workers=4, timeout=2400):
    cfg = m1.write_cfg('ConnSet_%s.cfg' % tag, dict(Sim=m1.tla_bool(sim), Small=m1.tla_bool(small), MaxSteps=maxsteps, M=M, NR=NR),
                       extra='INVARIANT AlgebraOK')
    out = os.path.join(vlib.sub('sim'), 'connset_%s.out' % tag)
    args = ['-simulate', 'num=%d' % max(1, num // workers), '-depth', str(maxsteps + 3), '-seed', str(vlib.seed())] if sim else []
    text, gen, dist, rc = vlib.tlc('ConnSet', cfg, args, timeout=timeout, workers=workers if sim else vlib.NCPU, outfile=out, tag=tag)
    n = sum(1 for ln in open(out, errors='replace') if ln.startswith('"OPS '))
    states = dist
    for ln in text.splitlines():
        if ln.startswith('The number of states generated:'):
            states = int(ln.split(':')[1].strip())
    if rc != 0 or vlib.has_tlc_error(text) or n == 0:
        raise Infra('ConnSet.tla run failed (rc=%s, sequences=%d):\n%s' % (rc, n, '\n'.join(l for l in text.splitlines() if not l.startswith('"OPS'))[-3000:]))
    return out, states, n


def connset_impl(tier):
    """Design layer of C11 (ConnSetImpl.tla / ConnSetImplCheck.tla): ConnectionSet / PortSet as the code represents and updates them.
    Breadth-first over every representation reachable from empty registers (closed space, no depth bound): every operation refines
    ConnSetModel!Apply, every observer agrees with the denotation, the representation invariant holds. Every ingredient of the design
    (constants of ConnSetImpl.tla) must be necessary: dropping it must be refuted by TLC."""
    inv = 'INVARIANT RepOK\nINVARIANT StepRefines\nINVARIANT ObserversOK'
    one = dict(m1.CONNSET_ASBUILT, M=3, NR=1, UseProtos='{"TCP", "UDP", "SCTP"}', UseNames='{"http", "dns"}')
    two = dict(m1.CONNSET_ASBUILT, M=2, NR=2, UseProtos='{"TCP", "UDP"}', UseNames='{"http"}')
    runs = [('one', one), ('two', two)]
    if tier == 'thorough':
        runs.append(('two3', dict(two, UseProtos='{"TCP", "UDP", "SCTP"}')))      # 1.7 M representations pairs, about 9 min on 16 cores
    states = 0
    for tag, consts in runs:
        cfg = m1.write_cfg('ConnSetImplCheck_%s.cfg' % tag, consts, extra=inv)
        text, gen, dist, rc = vlib.tlc('ConnSetImplCheck', cfg, timeout=3000, tag='csi' + tag)
        if 'is violated' in text:
            raise Infra('ConnSetImpl.tla (as built, %s): the design does not refine ConnSetModel (specification-level finding, not a verdict about the code):\n' % tag
                        + vlib.tlc_error_context(text))
        if rc != 0 or vlib.has_tlc_error(text) or 'No error has been found' not in text:
            raise Infra('ConnSetImplCheck.tla run failed:\n' + vlib.tlc_error_context(text))
        states += dist
    refuted = []
    for flag in sorted(m1.CONNSET_ASBUILT):
        ok = False
        for tag, consts in (('one', one), ('two', two)):
            cfg = m1.write_cfg('ConnSetImplCheck_no%s_%s.cfg' % (flag, tag), dict(consts, **{flag: 'FALSE'}), extra=inv)
            text, gen, dist, rc = vlib.tlc('ConnSetImplCheck', cfg, timeout=900, tag='csim%s%s' % (flag, tag))
            if ' is violated' in text:
                ok = True
                break
        if not ok:
            raise Infra('ConnSetImpl.tla: dropping %s is not refuted -- the invariants would be vacuous:\n%s' % (flag, vlib.tlc_error_context(text)))
        refuted.append(flag + '=FALSE')
    return dict(connset_design_layer='ConnSetImpl.tla: AllowAll + AllowedProtocols map of PortSet{Ports, NamedPorts, ExcludedNamedPorts} updated as connectionset.go / portset.go do; '
                                     'for EVERY representation reachable from empty registers (1 register: 3 port chunks, 3 protocols, 2 names, every range; 2 registers: 2 chunks, '
                                     '%s, 1 name) every method refines ConnSetModel!Apply, IsEmpty / IsAllConnections / Equal / ContainedIn / Contains agree with the '
                                     'denotation and the representation invariant holds' % ('3 protocols' if tier == 'thorough' else '2 protocols in AddConnection'),
                connset_design_distinct_states=states, connset_design_exhaustive=True, connset_design_refuted_variants=refuted)


@check('C11')
def c11(tier):
    t0 = time.time()
    vlib.build_harness()
    design_cov = connset_impl(tier)
    runs = []  # (shards, M, NR)
    states = 0
    nseq = collections.Counter()
    out, st, n = connset_sequences('sim', True, False, scale(tier, 30, 50), 3, 3, num=scale(tier, 400, 8000))
    states += st; nseq['tlc_random_walks'] = n
    d = vlib.sub('ctr-sim')
    vlib.harness(['connset', '-ops', out, '-M', '3', '-NR', '3', '-out', d, '-seed', str(vlib.seed())])
    runs.append((sorted(glob.glob(d + '/*.ndjson')), 3, 3))
    depth = scale(tier, 3, 4)
    out, st, n = connset_sequences('bfs', False, True, depth, 3, 2)
    states += st; nseq['tlc_exhaustive_sequences'] = n
    d = vlib.sub('ctr-bfs')
    vlib.harness(['connset', '-ops', out, '-M', '3', '-NR', '2', '-out', d, '-seed', str(vlib.seed())])
    runs.append((sorted(glob.glob(d + '/*.ndjson')), 3, 2))
    nrand = scale(tier, 300, 6000)
    d = vlib.sub('ctr-rnd')
    vlib.harness(['connset', '-random', str(nrand), '-len', str(scale(tier, 80, 150)), '-randomM', '9', '-out', d, '-seed', str(vlib.seed())])
    runs.append((sorted(glob.glob(d + '/*.ndjson')), 9, 3))
    nseq['random_sequences_M9'] = nrand
    mism = []
    chunked = []
    drift = []
    lines = tstates = 0
    for shards, M, NR in runs:
        cfg = m1.connset_trace_cfg(M, NR)
        res = vlib.validate_traces('ConnSetTrace', shards, cfg=cfg)
        mism += res['mismatches']; lines += res['lines']; tstates += res['states']
        chunked.append((res['shards'], M, NR))
        for sh in res['shards']:
            if os.path.exists(sh + '.tlcout'):
                drift += vlib.parse_printed_json(open(sh + '.tlcout', errors='replace').read(), 'DRIFT')
    ops = collections.Counter()
    steps = 0
    named_steps = 0
    sample = None
    for shards, M, NR in chunked:
        for sh in shards:
            for ln in open(sh):
                if ln.startswith('{"ev":"Step"'):
                    steps += 1
                    e = json.loads(ln)
                    ops[e['o']['op']] += 1
                    if any(r['names'][pr] for r in e['regs'] for pr in r['names']):
                        named_steps += 1
                    if sample is None and steps > 10 and e['o']['op'] == 'Subtract':
                        sample = dict(op=e['o'], registers_after=[dict(str=r['str'], all=r['all']) for r in e['regs']], eq=e['eq'], sub=e['sub'])
    v = vlib.Verdict('C11')
    groups = collections.OrderedDict()
    for (sh, mm) in mism:
        groups.setdefault((sh, mm['wid']), []).append(mm)
    kinds = collections.Counter()
    for (sh, sid), mms in groups.items():
        first = min(mms, key=lambda m: m['line'])
        for mm in mms:
            kinds[mm['m'][0]] += 1
        seq = []
        for i, ln in enumerate(open(sh), 1):
            if ln.startswith('{"ev":"Start"'):
                seq = []
            seq.append(ln)
            if i >= first['line']:
                break
        evs = [json.loads(x) for x in seq]
        payload = dict(property='C11', kind='connset', mismatch=first['m'], start=evs[0], ops=[e['o'] for e in evs[1:]], last_step=evs[-1])
        v.add('%s: %s' % (first['m'][0], vlib.short(first['m'][1:], 400)), payload, signature=classify('C11', first['m'], payload, None))
    rc = v.finish()
    if steps == 0 or named_steps == 0:
        raise Infra('vacuous run')
    if drift:
        # not a verdict about the property: the code no longer follows the design layer step by step (its denotations were checked above)
        print('DESIGN-DRIFT: %d recorded step(s) leave a representation ConnSetImpl.tla does not predict (first: %s); the design-level '
              'proof no longer covers this code - update ConnSetImpl.tla' % (len(drift), vlib.short(drift[0], 500)))
    design_cov['connset_steps_following_design'] = steps - len(set((x['wid'], x['line']) for x in drift))
    design_cov['connset_steps_drifting_from_design'] = len(set((x['wid'], x['line']) for x in drift))
    cov = dict(design_cov, states=states + tstates + design_cov['connset_design_distinct_states'], transitions=steps, traces_validated_against_impl=sum(nseq.values()), samples=[sample],
               evaluations=sum(nseq.values()), distinct_nontrivial=sum(nseq.values()),
               rule='one case = one operation sequence on real common.ConnectionSet objects (3 or 2 registers); after every step all registers, all pairwise Equal/ContainedIn, '
                    'IsEmpty/IsAllConnections/Contains/String and pointer sharing are recorded and validated by TLC; exhaustive: ALL sequences of %d operations over the reduced '
                    'catalogue (26 operations, 2 registers, 3 port chunks)' % depth,
               sequences=dict(nseq), steps=steps, steps_with_named_ports=named_steps, operations=dict(ops), trace_events_validated=lines,
               mismatch_kinds=dict(kinds), known_findings_hit=v.known_hits, exhaustive=False)
    vlib.write_evidence('C11', tier, 'model_checking', cov,
                        ['TLC + Json module trusted', 'ConnSetModel.tla: numeric points exact; named ports are atoms for Union/Subtract/Copy/IsEmpty/printing; a name is covered by a set holding it or a full range; '
                         'name part of Intersection unspecified; Equal complete / full-set recognition demanded only for sets without named-port bookkeeping',
                         'port chunk abstraction: every reported boundary must be a chunk boundary',
                         'ConnSetImpl.tla abstracts interval.CanonicalSet to the set it denotes and does not model pointer sharing (both are checked on the real objects by the trace specification)'],
                        time.time() - t0, len(v.violations))
    print('C11 %s: %d sequences, %d steps (%d with named ports), %d violation(s), %.0fs' % (tier, sum(nseq.values()), steps, named_steps, len(v.violations), time.time() - t0))
    return rc


# ---------------------------------------------------------------------------------------------------
# C12: totality under structural mutation

@check('C12')
def c12(tier):
    t0 = time.time()
    vlib.build_harness()
    bin = vlib.build_cli() if tier == 'thorough' else None
    schema = os.path.join(vlib.sub('sim'), 'schema.ndjson')
    vlib.harness(['mutate', '-schema', schema])
    npaths = sum(1 for _ in open(schema)) - 1
    cfg = m1.write_cfg('Mutation_run.cfg', dict(Pairs=m1.tla_bool(tier == 'thorough')), extra='INVARIANT Emit')
    out = os.path.join(vlib.sub('sim'), 'mutation.out')
    text, gen, dist, rc = vlib.tlc('Mutation', cfg, timeout=3000, workers=1, outfile=out, tag='mu', env=dict(SCHEMA=schema))
    ncases = sum(1 for ln in open(out, errors='replace') if ln.startswith('"CASE '))
    if rc != 0 or vlib.has_tlc_error(text) or ncases == 0 or ncases != dist:
        raise Infra('Mutation.tla enumeration failed (cases=%d, distinct=%d)\n%s' % (ncases, dist, '\n'.join(l for l in text.splitlines() if not l.startswith('"CASE'))[-2000:]))
    d = vlib.sub('mtr')
    args = ['mutate', '-cases', out, '-out', d]
    if bin:
        args += ['-bin', bin]
    vlib.harness(args, timeout=6000)
    shards = sorted(glob.glob(d + '/shard*.ndjson'))
    res = vlib.validate_traces('MutationTrace', shards)
    shards = res['shards']
    st = collections.Counter()
    sample = None
    for sh in shards:
        for ln in open(sh):
            e = json.loads(ln)
            st['cases'] += 1
            for r, o in e['runs'].items():
                st['runs'] += 1
                st[o] += 1
            if sample is None and e['case']['muts'] and e['case']['muts'][0]['op'] == 'foreign' and 'error' in e['runs'].values():
                sample = e
    # valid but unusual inputs are directory contents too: generated worlds (named ports with mismatching protocols, exposure-biased
    # selectors, admin policies, colliding names) through list / list --exposure / eval / diff; only crashes count here
    vshards = m1.record('c12-valid', profile='np-named,np-expo,admin,np-collide,np-big', n=scale(tier, 1500, 30000), ops='list,exposure,eval,diff')
    vres = vlib.validate_traces('ReplayTrace', vshards)
    vshards = vres['shards']
    valid_worlds = sum(1 for sh in vshards for ln in open(sh) if ln.startswith('{"ev":"World"'))
    v = vlib.Verdict('C12')
    mk = collections.Counter()
    seen = set()
    for (sh, mm) in vres['mismatches']:
        if mm['m'][0] != 'panic':
            continue
        mk['C12-panic-on-valid-world'] += 1
        if (sh, mm['line']) in seen:
            continue
        seen.add((sh, mm['line']))
        wev = vlib.world_of(sh, mm['line'])
        v.add('panic on a generated (valid) world: %s' % vlib.short(mm['m'][1:], 300),
              dict(property='C12', kind='m1', mismatches=[mm['m']], world_event=wev, trace_event=vlib.trace_line(sh, mm['line']), ops='list,exposure,eval,diff'))
    for (sh, mm) in res['mismatches']:
        ev = vlib.trace_line(sh, mm['line'])
        mk[mm['m'][0]] += 1
        key = (mm['wid'])
        if key in seen:
            continue
        seen.add(key)
        v.add('%s in %s: %s' % (mm['m'][0], mm['m'][1], vlib.short(mm['m'][2:], 400)), dict(property='C12', kind='mutation', mismatch=mm['m'], event=ev),
              signature=classify('C12', mm['m'], ev, None))
    rc = v.finish()
    if st['cases'] < 1000 or st['error'] < 50 or st['result'] < 1000:
        raise Infra('vacuous run: %s' % dict(st))
    cov = dict(evaluations=st['runs'], distinct_nontrivial=st['cases'],
               rule='Mutation.tla enumerates completely: every single mutation (drop / null / retype to each other JSON type / empty string / class-specific foreign values) of every one of the %d field paths of the seed '
                    'manifests (Pod with ownerReferences and host/pod IPs, 7 controller kinds, Namespace, NetworkPolicy, ANP, BANP, Service, Ingress, Route, List), 8 file-level corruptions of each of the 6 files%s; '
                    'each case is run through list, list --fail -o dot, list --exposure, diff (mutant as dir1 and as dir2) and an eval sweep plus engine updates, in-process under recover() with a 30 s timeout%s; '
                    'distinct_nontrivial = number of distinct mutation cases' % (npaths, ', and every pair of drop/null/foreign mutations of two fields of one document' if tier == 'thorough' else '',
                                                                              ' and through the built binary (list, list --exposure, diff, eval)' if bin else ''),
               samples=[sample], cases=ncases, field_paths=npaths, generated_valid_worlds_run_for_crashes=valid_worlds, outcomes={k: st[k] for k in ('result', 'error', 'panic', 'timeout')}, mismatch_kinds=dict(mk),
               known_findings_hit=v.known_hits, exhaustive=True, states=dist + res['states'], transitions=st['runs'], traces_validated_against_impl=st['cases'])
    vlib.write_evidence('C12', tier, 'fault_enumeration', cov,
                        ['TLC + Json + IOUtils modules trusted', 'the mutation space consists of structural and lexical classes, not of all byte contents: "all byte contents" is out of reach of this technique',
                         'one seed directory; the field tree is derived from it mechanically', 'Go recover() catches panics of the calling goroutine only; the CLI runs (thorough tier) also see crashes of other goroutines'],
                        time.time() - t0, len(v.violations))
    print('C12 %s: %d mutation cases over %d field paths, %d runs (%s), %d violation(s), %.0fs'
          % (tier, ncases, npaths, st['runs'], {k: st[k] for k in ('result', 'error', 'panic', 'timeout')}, len(v.violations), time.time() - t0))
    return rc


# ---------------------------------------------------------------------------------------------------
# C13: bad or irrelevant documents (machine M4)

@check('C13')
def c13(tier):
    t0 = time.time()
    vlib.build_harness()
    items = scale(tier, 2, 3)
    cfg = m1.write_cfg('Pipeline_run.cfg', dict(MaxItems=items),
                       extra='\n'.join('INVARIANT ' + i for i in ['NoSkew', 'SevereReported', 'StopYieldsNoConnections', 'FatalYieldsError', 'FatalReached', 'Emit']))
    out = os.path.join(vlib.sub('sim'), 'pipeline.out')
    text, gen, dist, rc = vlib.tlc('Pipeline', cfg, timeout=2400, outfile=out, tag='pl')
    ncases = sum(1 for ln in open(out, errors='replace') if ln.startswith('"CASE '))
    if 'is violated' in text:
        raise Infra('Pipeline.tla: a C13 clause fails in the design model (specification-level, not a verdict about the code):\n' + text[-2500:])
    if rc != 0 or vlib.has_tlc_error(text) or ncases == 0:
        raise Infra('Pipeline.tla run failed (cases=%d)\n%s' % (ncases, '\n'.join(l for l in text.splitlines() if not l.startswith('"CASE'))[-2000:]))
    d = vlib.sub('ptr')
    vlib.harness(['pipeline', '-cases', out, '-out', d], timeout=3000)
    shards = sorted(glob.glob(d + '/shard*.ndjson'))
    res = vlib.validate_traces('PipelineTrace', shards)
    shards = res['shards']
    st = collections.Counter()
    sample = None
    for sh in shards:
        for ln in open(sh):
            e = json.loads(ln)
            st['runs'] += 1
            st['outcome:' + e['outcome']] += 1
            st['with_injected_items'] += 1 if any(f['cls'] != 'yaml' or any(not x.startswith('g') for x in f['docs']) for f in e['scn']['files']) else 0
            if sample is None and e['outcome'] == 'result' and len(e['scn']['files']) > 2:
                sample = dict(scenario=e['scn'], files=e['fileNames'], outcome=e['outcome'], errors=e['errors'])
    v = vlib.Verdict('C13')
    mk = collections.Counter()
    for (sh, mm) in res['mismatches']:
        ev = vlib.trace_line(sh, mm['line'])
        mk[mm['m'][0]] += 1
        v.add('%s: %s' % (mm['m'][0], vlib.short(mm['m'][1:], 400)), dict(property='C13', kind='pipeline', mismatch=mm['m'], event=ev),
              signature=classify('C13', mm['m'], ev, None))
    rc = v.finish()
    if st['with_injected_items'] < 100:
        raise Infra('vacuous run: %s' % dict(st))
    cov = dict(states=dist + res['states'], transitions=gen, traces_validated_against_impl=ncases, samples=[sample],
               evaluations=ncases, distinct_nontrivial=st['with_injected_items'],
               rule='Pipeline.tla: every directory made of 3 layouts of 4 good documents with up to %d injected items (other kind / schema-conversion failure / conflicting policy as documents at any position of any file; '
                    'ignored-extension file / syntactically broken file / YAML that is not a manifest as first or last file) x stopOnError x {list, diff as dir1, diff as dir2}; TLC checks the four clauses on the pipeline machine for all of them '
                    'and each scenario is materialised (concrete junk drawn from a catalogue) and run on the real code; non-trivial = scenarios with at least one injected item' % items,
               scenarios=ncases, runs=dict(st), mismatch_kinds=dict(mk), known_findings_hit=v.known_hits, exhaustive=True)
    vlib.write_evidence('C13', tier, 'model_checking', cov,
                        ['TLC + Json module trusted', 'the concrete junk of each class is drawn from a small catalogue (3-4 samples per class)',
                         'a syntactically broken document inside an otherwise good multi-document file is not injected (the resource builder abandons the rest of that file; the property speaks of broken files)',
                         'attribution of a severe entry to its file is demanded for list only (diff wraps entries without location); for diff the count of severe entries is checked'],
                        time.time() - t0, len(v.violations))
    print('C13 %s: %d scenarios (%d with injected items), design model %d states, %d violation(s), %.0fs' % (tier, ncases, st['with_injected_items'], dist, len(v.violations), time.time() - t0))
    return rc


# ---------------------------------------------------------------------------------------------------
# C18: CLI vs directory API vs resource-info API

@check('C18')
def c18(tier):
    t0 = time.time()
    vlib.build_harness()
    bin = vlib.build_cli()
    cfg = m1.write_cfg('CliSpace_run.cfg', dict(Reduced=m1.tla_bool(tier == 'quick')), extra='INVARIANT Emit')
    out = os.path.join(vlib.sub('sim'), 'cli.out')
    text, gen, dist, rc = vlib.tlc('CliSpace', cfg, timeout=1500, workers=1, outfile=out, tag='cli')
    ncases = sum(1 for ln in open(out, errors='replace') if ln.startswith('"CASE '))
    if rc != 0 or vlib.has_tlc_error(text) or ncases == 0 or ncases != dist:
        raise Infra('CliSpace.tla enumeration failed (cases=%d, distinct=%d)\n%s' % (ncases, dist, text[-2000:]))
    shards = []
    nseeds = scale(tier, 1, 4)
    for k in range(nseeds):
        d = vlib.sub('clitr%d' % k)
        vlib.harness(['cli', '-cases', out, '-bin', bin, '-out', d, '-seed', str(vlib.seed() * 100 + k)], timeout=3000)
        shards += sorted(glob.glob(d + '/shard*.ndjson'))
    res = vlib.validate_traces('CliTrace', shards)
    shards = res['shards']
    st = collections.Counter()
    sample = None
    for sh in shards:
        for ln in open(sh):
            e = json.loads(ln)
            st['runs'] += 1
            st['exit_nonzero'] += 1 if e['exit'] != 0 else 0
            st['nonempty_stdout'] += 1 if e['stdoutLen'] > 0 else 0
            st['with_file'] += 1 if e['fileExists'] else 0
            if sample is None and e['stdoutLen'] > 0 and e['cfg']['cmd'] == 'diff':
                sample = e
    v = vlib.Verdict('C18')
    mk = collections.Counter()
    for (sh, mm) in res['mismatches']:
        ev = vlib.trace_line(sh, mm['line'])
        mk[mm['m'][0]] += 1
        v.add('%s: %s' % (mm['m'][0], vlib.short(mm['m'][1:], 400)), dict(property='C18', kind='cli', mismatch=mm['m'], event=ev),
              signature=classify('C18', mm['m'], ev, None))
    rc = v.finish()
    if st['nonempty_stdout'] < 10 or st['exit_nonzero'] < 10:
        raise Infra('vacuous run: %s' % dict(st))
    cov = dict(evaluations=st['runs'], distinct_nontrivial=st['nonempty_stdout'],
               rule='the configuration space of CliSpace.tla (command x -o format incl. invalid/absent x --exposure x --focusworkload none/present/absent/ns-name x --fail x -q/-v/both x -f x 8 directory kinds '
                    '(good, with junk, with severe errors, with a fatal conflict, empty, with Ingress, with admin policies, missing) [x second directory for diff]) is enumerated completely by TLC '
                    '(quick: the reduced product) and each configuration is run through the built binary and the library on %d seeded directory sets; non-trivial = runs with non-empty stdout' % nseeds,
               samples=[sample], states=dist + res['states'], transitions=st['runs'], traces_validated_against_impl=st['runs'],
               configurations=ncases, runs=dict(st), mismatch_kinds=dict(mk), known_findings_hit=v.known_hits, exhaustive=True)
    vlib.write_evidence('C18', tier, 'exploration', cov,
                        ['TLC + Json module trusted', 'both sides of every comparison are real code (binary built from cmd/netpolicy vs library calls); the specification supplies the configuration space and the acceptance relation',
                         'directories are seeded samples of each kind, not all directories'], time.time() - t0, len(v.violations))
    print('C18 %s: %d configurations x %d directory sets = %d runs, %d violation(s), %.0fs' % (tier, ncases, nseeds, st['runs'], len(v.violations), time.time() - t0))
    return rc


# ---------------------------------------------------------------------------------------------------
# C19: conflicting policy sets

@check('C19')
def c19(tier):
    t0 = time.time()
    vlib.build_harness()
    # design level: detection inside the sort's comparison callback cannot be missed by insertion sort (n <= 12 in Go)
    N = scale(tier, 6, 8)
    cfg = m1.write_cfg('SortConflict_run.cfg', dict(N=N), extra='INVARIANT ConflictDetected\nINVARIANT Ordered')
    text, gen, dist, rc = vlib.tlc('SortConflict', cfg, timeout=1500, tag='sc')
    if rc != 0 or vlib.has_tlc_error(text) or 'No error has been found' not in text:
        raise Infra('SortConflict.tla: the design argument fails (specification-level, not a verdict about the code):\n' + text[-2500:])
    sort_states = dist
    sizes = scale(tier, '{2, 3, 5, 12, 13, 33}', '{2, 3, 4, 5, 6, 8, 12, 13, 33, 64}')
    cfg = m1.write_cfg('Conflict_run.cfg', dict(Sizes=sizes, AllPairsUpTo=scale(tier, 5, 8)), extra='INVARIANT Emit\nINVARIANT PriosOK')
    out = os.path.join(vlib.sub('sim'), 'conflict.out')
    text, gen, dist, rc = vlib.tlc('Conflict', cfg, timeout=1500, workers=1, outfile=out, tag='cf')
    ncases = sum(1 for ln in open(out, errors='replace') if ln.startswith('"CASE '))
    if rc != 0 or vlib.has_tlc_error(text) or ncases == 0 or ncases != dist:
        raise Infra('Conflict.tla enumeration failed (cases=%d, distinct=%d)\n%s' % (ncases, dist, text[-2000:]))
    d = vlib.sub('ktr')
    vlib.harness(['conflict', '-cases', out, '-out', d])
    shards = sorted(glob.glob(d + '/shard*.ndjson'))
    res = vlib.validate_traces('ConflictTrace', shards)
    shards = res['shards']
    kinds = collections.Counter()
    sample = None
    for sh in shards:
        for ln in open(sh):
            e = json.loads(ln)
            kinds[e['case']['kind']] += 1
            if sample is None and e['case']['kind'] == 'samePriority' and e['case']['n'] > 4:
                sample = e
    v = vlib.Verdict('C19')
    mk = collections.Counter()
    for (sh, mm) in res['mismatches']:
        ev = vlib.trace_line(sh, mm['line'])
        mk[mm['m'][0]] += 1
        v.add('%s: %s' % (mm['m'][0], vlib.short(mm['m'][1:], 400)), dict(property='C19', kind='conflict', mismatch=mm['m'], event=ev),
              signature=classify('C19', mm['m'], ev, None))
    rc = v.finish()
    if ncases < 100 or kinds['none'] == 0:
        raise Infra('vacuous run')
    cov = dict(states=dist + sort_states + res['states'], transitions=3 * ncases, traces_validated_against_impl=ncases, samples=[sample],
               evaluations=3 * ncases, distinct_nontrivial=ncases - kinds['none'],
               rule='the finite case space of Conflict.tla (conflict kind x number of ANPs x document positions of the conflicting resources x arrangement family of the other priorities) is enumerated '
                    'completely by TLC; each case is materialised (one file / one file per document) and run through list, diff with the conflict in dir1 and diff with the conflict in dir2; '
                    'control cases (no conflict) must pass. Non-trivial = a case with a conflict.',
               cases_per_kind=dict(kinds), sizes=sizes, sort_design_states=sort_states, sort_design_N=N, mismatch_kinds=dict(mk),
               known_findings_hit=v.known_hits, exhaustive=True)
    vlib.write_evidence('C19', tier, 'model_checking', cov,
                        ['TLC + Json module trusted', 'the enumerated space is exhaustive only for the listed sizes/positions/arrangement families; other sizes and orders are not covered',
                         'SortConflict.tla models the insertion sort used by sort.Slice for n <= 12; for larger n detection is checked empirically only'],
                        time.time() - t0, len(v.violations))
    print('C19 %s: %d cases (%s), %d list/diff runs validated, %d violation(s), %.0fs' % (tier, ncases, dict(kinds), 3 * ncases, len(v.violations), time.time() - t0))
    return rc


# ---------------------------------------------------------------------------------------------------
# C15: PolicyEngine histories (machine M2)

def engine_histories(tag, sim, small, maxsteps, num=0, workers=4, timeout=1500, tiny=False):
    cfg = m1.write_cfg('Engine_%s.cfg' % tag, dict(Sim=m1.tla_bool(sim), Small=m1.tla_bool(small), Tiny=m1.tla_bool(tiny), MaxSteps=maxsteps),
                       extra='INVARIANT UniqueKeys\nINVARIANT DeleteAbsentIsNoOp')
    out = os.path.join(vlib.sub('sim'), 'engine_%s.out' % tag)
    if sim:
        args = ['-simulate', 'num=%d' % max(1, num // workers), '-depth', str(maxsteps + 3), '-seed', str(vlib.seed())]
    else:
        args = []
    text, gen, dist, rc = vlib.tlc('Engine', cfg, args, timeout=timeout, workers=workers if sim else vlib.NCPU, outfile=out, tag=tag)
    nh = sum(1 for ln in open(out, errors='replace') if ln.startswith('"HISTORY '))
    states = dist
    for ln in text.splitlines():
        if ln.startswith('The number of states generated:'):
            states = int(ln.split(':')[1].strip())
    if rc != 0 or vlib.has_tlc_error(text) or nh == 0:
        raise Infra('Engine.tla run failed (rc=%s, histories=%d):\n%s' % (rc, nh, '\n'.join(l for l in text.splitlines() if not l.startswith('"HISTORY'))[-3000:]))
    return out, states, nh


def engine_record(tag, histories=None, nrandom=0, rlen=60):
    out = vlib.sub('etr-' + tag)
    args = ['engine', '-out', out, '-seed', str(vlib.seed()), '-shards', str(vlib.NCPU)]
    if histories:
        args += ['-histories', histories]
    if nrandom:
        args += ['-random', str(nrandom), '-len', str(rlen)]
    vlib.harness(args)
    return sorted(glob.glob(os.path.join(out, 'shard*.ndjson')))


def history_of(shard, lineno):
    """All events of the history containing line `lineno` up to and including that line."""
    evs = []
    with open(shard) as f:
        for i, ln in enumerate(f, 1):
            if ln.startswith('{"ev":"Init"'):
                evs = []
            evs.append(ln.strip())
            if i >= lineno:
                break
    return [json.loads(e) for e in evs]


def cache_design(tier):
    """Design layer of C15 (CacheDesign.tla): memoisation + invalidation as the code does them. The as-built configuration must
    satisfy CacheCoherent / ReplyCorrect in every state of the bound; each configuration that drops one ingredient of the owner key or
    one purge must be refuted by TLC (the invariants are not vacuous). Returns a coverage dict."""
    base = dict(KeyHasNamespace='TRUE', KeyHasLabels='TRUE', KeyHasPorts='TRUE', PurgeOnNamespace='TRUE', PurgeOnPolicy='TRUE',
                MaxVer=1, MaxCached=2, LVs='{1}', PVs='{1, 2}', FaithfulRegistry='FALSE')
    inv = 'INVARIANT CacheCoherent\nINVARIANT ReplyCorrect\nINVARIANT TypeOK\nCONSTRAINT SmallCache'
    runs = [('ports', dict(base)), ('labels', dict(base, LVs='{1, 2}', PVs='{1}'))]
    if tier == 'thorough':
        runs.append(('both', dict(base, LVs='{1, 2}', PVs='{1, 2}')))
    states = 0
    for tag, consts in runs:
        cfg = m1.write_cfg('CacheDesign_%s.cfg' % tag, consts, extra=inv)
        text, gen, dist, rc = vlib.tlc('CacheDesign', cfg, timeout=2400, tag='cd' + tag)
        if 'is violated' in text:
            raise Infra('CacheDesign.tla (as built, %s): the design does not keep the cache coherent (specification-level finding, not a verdict about the code):\n' % tag
                        + vlib.tlc_error_context(text))
        if rc != 0 or vlib.has_tlc_error(text) or 'No error has been found' not in text:
            raise Infra('CacheDesign.tla run failed:\n' + vlib.tlc_error_context(text))
        states += dist
    # the registry (ownerToPods) as the code keeps it: random walks (its exhaustive space is > 10^8 states for three pods)
    cfg = m1.write_cfg('CacheDesign_reg.cfg', dict(base, LVs='{1, 2}', PVs='{1, 2}', FaithfulRegistry='TRUE', MaxVer=2, MaxCached=4), extra=inv)
    num = scale(tier, 3000, 60000)
    text, gen, dist, rc = vlib.tlc('CacheDesign', cfg, ['-simulate', 'num=%d' % max(1, num // 4), '-depth', '40', '-seed', str(vlib.seed())],
                                   timeout=2400, workers=4, tag='cdreg')
    if 'is violated' in text or vlib.has_tlc_error(text):
        raise Infra('CacheDesign.tla (faithful registry, simulation) failed:\n' + vlib.tlc_error_context(text))
    refuted = []
    for flag, consts in [('KeyHasNamespace', base), ('KeyHasLabels', dict(base, LVs='{1, 2}', PVs='{1}')), ('KeyHasPorts', base),
                         ('PurgeOnNamespace', base), ('PurgeOnPolicy', base)]:
        cfg = m1.write_cfg('CacheDesign_no%s.cfg' % flag, dict(consts, **{flag: 'FALSE'}), extra=inv)
        text, gen, dist, rc = vlib.tlc('CacheDesign', cfg, timeout=600, tag='cdm' + flag)
        if 'Invariant CacheCoherent is violated' not in text and 'Invariant ReplyCorrect is violated' not in text:
            raise Infra('CacheDesign.tla: dropping %s is not refuted -- the invariant would be vacuous:\n%s' % (flag, vlib.tlc_error_context(text)))
        refuted.append(flag)
    return dict(cache_design_layer='CacheDesign.tla: memoisation per (owner key, owner key, query) + invalidation rules of resources.go; CacheCoherent and ReplyCorrect hold in every '
                                   'state of the bound (3 pod slots in 2 namespaces, owners {none, a}, 2 label variants or 2 named-port declarations, versions 0..1, <= 2 memoised verdicts; '
                                   'whether deletePod drops the owner\'s verdicts left open); the faithful ownerToPods registry by %d random walks of depth 40' % num,
                cache_design_distinct_states=states, cache_design_exhaustive=True,
                cache_design_refuted_variants=['%s=FALSE' % f for f in refuted])


@check('C15')
def c15(tier):
    t0 = time.time()
    vlib.build_harness()
    design_cov = cache_design(tier)
    shards = []
    states = 0
    nh_tlc = 0
    out, st, nh = engine_histories('sim', True, False, scale(tier, 30, 45), num=scale(tier, 300, 2500))
    states += st; nh_tlc += nh
    shards += engine_record('sim', histories=out)
    out, st, nh = engine_histories('bfs', False, True, 3)
    states += st; nh_tlc += nh
    exhaustive_histories = nh
    shards += engine_record('bfs', histories=out)
    if tier == 'thorough':
        # one more step of exhaustive depth over the 12-operation catalogue (20 736 histories; depth 4 over the 20-operation
        # catalogue is 160 000 histories x 2 sweeps x 900 replies and does not finish within an hour)
        out, st, nh = engine_histories('bfs4', False, False, 4, tiny=True)
        states += st; nh_tlc += nh
        exhaustive_histories += nh
        shards += engine_record('bfs4', histories=out)
    nrand = scale(tier, 150, 1200)
    shards += engine_record('rnd', nrandom=nrand, rlen=scale(tier, 60, 120))
    res = vlib.validate_traces('EngineTrace', shards)
    shards = res['shards']
    st = collections.Counter()
    hits = 0
    sample = None
    for sh in shards:
        for ln in open(sh):
            if ln.startswith('{"ev":"Op"'):
                st['ops'] += 1
            elif ln.startswith('{"ev":"Sweep"'):
                e = json.loads(ln)
                st['sweeps'] += 1
                st['queries'] += len(e['q']) * 9
                hits = max(hits, 0) + 0
                st['cache_hits_seen'] = max(st['cache_hits_seen'], e['hits'])
                st['sweeps_with_cached_verdicts'] += 1 if e['cached'] > 0 else 0
            elif ln.startswith('{"ev":"Peek"'):
                st['peeks'] += 1
                nc = ln.count('"k":')
                st['memoised_verdicts_checked'] += nc
                st['peeks_with_memoised_verdicts'] += 1 if nc else 0
            elif ln.startswith('{"ev":"Init"'):
                st['histories'] += 1
        if sample is None:
            sample = [json.loads(l) for l in open(sh).read().splitlines()[1:8]]
            sample = [{k: (v if k != 'q' else v[:2]) for k, v in e.items()} for e in sample]
    v = vlib.Verdict('C15')
    groups = collections.OrderedDict()
    for (sh, mm) in res['mismatches']:
        groups.setdefault((sh, mm['wid']), []).append(mm)
    kinds = collections.Counter()
    for (sh, hid), mms in groups.items():
        first = min(mms, key=lambda m: m['line'])
        for mm in mms:
            kinds[mm['m'][0]] += 1
        hist = history_of(sh, first['line'])
        sig = classify('C15', first['m'], dict(history=hist), None)
        v.add('%s: %s' % (first['m'][0], vlib.short(first['m'][1:], 400)),
              dict(property='C15', kind='engine', mismatch=first['m'], history=[e for e in hist if e['ev'] != 'Sweep'] , line=first['line']), signature=sig)
    rc = v.finish()
    if st['histories'] == 0 or st['sweeps_with_cached_verdicts'] == 0 or st['peeks_with_memoised_verdicts'] == 0:
        raise Infra('vacuous run: %s' % dict(st))
    cov = dict(states=states + res['states'], transitions=st['ops'] + st['sweeps'] + st['peeks'], traces_validated_against_impl=st['histories'],
               samples=sample, evaluations=st['histories'], distinct_nontrivial=st['histories'],
               rule='one case = one update/query history replayed on a real eval.PolicyEngine; every history contains updates after a warm cache and at least one sweep; '
                    'TLC histories: random walks over the full 46-operation catalogue (incl. SetResources and ClearResources calls) + ALL histories of 3 operations over the reduced 20-operation catalogue%s (a delete and a re-insert with other content for every kind, a pod update that only re-declares a named container port, a sibling pod of the same owner with another template) after a populating prefix; '
                    'random histories from a seeded driver over a larger universe' % scale(tier, '', ' and ALL histories of 4 operations over a 12-operation catalogue'),
               tlc_histories=nh_tlc, exhaustive_short_histories=exhaustive_histories, random_histories=nrand, operations=st['ops'], sweeps=st['sweeps'],
               queries_checked=st['queries'], cache_peeks=st['peeks'], peeks_with_memoised_verdicts=st['peeks_with_memoised_verdicts'],
               memoised_verdicts_checked=st['memoised_verdicts_checked'], sweeps_with_cached_verdicts=st['sweeps_with_cached_verdicts'], max_cache_hits_in_one_history=st['cache_hits_seen'],
               trace_events_validated=res['lines'], mismatch_kinds=dict(kinds), known_findings_hit=v.known_hits, exhaustive=False)
    cov.update(design_cov)
    vlib.write_evidence('C15', tier, 'model_checking', cov,
                        ['TLC + Json module trusted', 'EngineModel.tla models "current objects" by the engine\'s documented behaviour (duplicate NP/ANP/second BANP rejected, pods/namespaces upsert, delete of absent = no-op)',
                         'pods sharing an owner share one pod template at all times', 'LRU eviction not reached (capacity 500)', 'single goroutine'],
                        time.time() - t0, len(v.violations))
    print('C15 %s: %d histories (%d from TLC, %d exhaustive short), %d ops, %d sweeps, %d replies checked, %d violation(s), %.0fs'
          % (tier, st['histories'], nh_tlc, exhaustive_histories, st['ops'], st['sweeps'], st['queries'], len(v.violations), time.time() - t0))
    return rc


# ---------------------------------------------------------------------------------------------------

def replay(prop, path):
    """Re-runs one recorded failing case on the current tree."""
    try:
        payload = json.load(open(path))
        if payload.get('kind') == 'm1':
            return replay_m1(prop, payload, path)
        import replay_other
        rc = replay_other.replay(prop, payload)
        if rc == 1:
            print('VIOLATION property=%s replay=%s' % (prop, path))
        return rc
    except Infra as e:
        print('INFRA-ERROR (no verdict): %s' % e)
        return 2


def replay_m1(prop, payload, path):
    vlib.build_harness()
    wev = payload['world_event']
    case = dict(label=wev['label'], args=wev['args'], world=wev['world'], conc=wev.get('conc', ''), seed=wev.get('seed', 0))
    d = vlib.sub('replay')
    cf = os.path.join(d, 'case.json')
    open(cf, 'w').write(json.dumps(case) + '\n')
    shards = m1.record('replay', cases=cf, ops=payload.get('ops', 'list'), shards=1,
                       bin=vlib.build_cli() if 'cli' in payload.get('ops', '') else None)
    res = vlib.validate_traces('ReplayTrace', shards)
    shards = res['shards']
    hits = [mm for (sh, mm) in res["mismatches"] if m1.owner_of(mm["m"], wev) == prop or (prop == "C12" and mm["m"][0] == "panic")]
    if hits:
        print('VIOLATION property=%s replay=%s' % (prop, path))
        for mm in hits[:5]:
            print('  ' + vlib.short(mm['m'], 600))
        return 1
    print('not reproduced on the current tree: %s' % path)
    return 0
