CONSTANT MaxItems = 2
SPECIFICATION Spec
INVARIANT NoSkew
INVARIANT SevereReported
INVARIANT StopYieldsNoConnections
INVARIANT FatalYieldsError
INVARIANT FatalReached
INVARIANT Emit
CHECK_DEADLOCK FALSE
