----------------------------- MODULE ConnSetModel -----------------------------
(***************************************************************************)
(* Machine M3 (C11): a register machine over connection sets.  A register  *)
(* holds the *denotation* of a common.ConnectionSet: a set of numeric      *)
(* points (protocol x port) plus a set of named ports (protocol x name),   *)
(* names being atoms.  The operations are the exported methods of          *)
(* ConnectionSet; their meaning here is plain set algebra.                 *)
(*                                                                         *)
(* Named ports (conservative reference, DESIGN.md 6/C11): numeric points   *)
(* are exact for every operation; names are atoms for Union, Subtract,     *)
(* Copy, IsEmpty and printing; a name is *covered* by a set that has it or *)
(* whose numeric range for that protocol is full; the name part of         *)
(* Intersection is not specified (taken from the observation).             *)
(*                                                                         *)
(* Used by ConnSet.tla (generator of operation sequences) and by           *)
(* ConnSetTrace.tla (validation of recorded steps).                        *)
(***************************************************************************)
EXTENDS Integers, Sequences, FiniteSets, TLC

CONSTANTS M, NR

Protos == {"TCP", "UDP", "SCTP"}
Names == {"http", "dns"}
Ports == 1..M
AllPts == Protos \X Ports
Regs == 1..NR

Empty == [pts |-> {}, names |-> {}]
Full  == [pts |-> AllPts, names |-> {}]

FullProto(v, pr) == \A n \in Ports : <<pr, n>> \in v.pts
(* names that add something: not already covered by a full numeric range   *)
Norm(v) == [pts |-> v.pts, names |-> {x \in v.names : ~FullProto(v, x[1])}]
Covers(v, x) == x \in v.names \/ FullProto(v, x[1])

SUnion(a, b)    == [pts |-> a.pts \cup b.pts, names |-> a.names \cup b.names]
SSubtract(a, b) == [pts |-> a.pts \ b.pts, names |-> {x \in a.names : ~Covers(b, x)}]
SInterPts(a, b) == a.pts \cap b.pts
SContained(a, b) == a.pts \subseteq b.pts /\ \A x \in Norm(a).names : Covers(b, x)
SEqual(a, b) == Norm(a) = Norm(b)
SIsEmpty(a) == a.pts = {} /\ a.names = {}
SIsAll(a) == a.pts = AllPts

(* an AddConnection argument: protocol, numeric range lo..hi (lo > hi: none), names *)
PortSpec(pr, lo, hi, ns) == [proto |-> pr, lo |-> lo, hi |-> hi, names |-> ns]
SpecSet(s) == [pts |-> {s.proto} \X (s.lo..s.hi), names |-> {s.proto} \X {s.names[i] : i \in DOMAIN s.names}]

(* Apply an operation to the register file rs (a function Regs -> value).  *)
(* For "Intersection" the name part is left to the caller (observed).      *)
Apply(rs, o) ==
  CASE o.op = "Make"      -> [rs EXCEPT ![o.i] = IF o.all THEN Full ELSE Empty]
    [] o.op = "Add"       -> [rs EXCEPT ![o.i] = SUnion(@, SpecSet(o.spec))]
    [] o.op = "Union"     -> [rs EXCEPT ![o.i] = SUnion(@, rs[o.j])]
    [] o.op = "Subtract"  -> [rs EXCEPT ![o.i] = SSubtract(@, rs[o.j])]
    [] o.op = "Intersect" -> [rs EXCEPT ![o.i] = [pts |-> SInterPts(@, rs[o.j]), names |-> @.names]]
    [] o.op = "Copy"      -> [rs EXCEPT ![o.i] = rs[o.j]]      \* r_i := r_j.Copy()

=============================================================================
