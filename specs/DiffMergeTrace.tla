--------------------------- MODULE DiffMergeTrace ---------------------------
(***************************************************************************)
(* Binding of DiffMerge.tla to the code: every recorded case is one input   *)
(* of DiffMerge (two partitions with connection values) together with the   *)
(* ip-block entries the real ConnDiffFromDirPaths produced for it, with     *)
(* their exact ranges.  The case is accepted iff those entries are exactly   *)
(* the set DiffMerge!Out predicts (for some choice of representatives - as   *)
(* built the choice does not matter), the run succeeded and the result has   *)
(* no other ip-block entries.                                                *)
(***************************************************************************)
EXTENDS DiffMerge, Json, IOUtils

TraceFile == IF "TRACE" \in DOMAIN IOEnv THEN IOEnv.TRACE ELSE "trace.ndjson"
Trace == ndJsonDeserialize(TraceFile)

VARIABLES l, mism
tvars == <<l, b1, b2, mism>>

SeqSet(s) == {s[i] : i \in DOMAIN s}
Blocks(s) == [i \in DOMAIN s |-> [lo |-> s[i].lo, hi |-> s[i].hi, c |-> s[i].c]]
Obs(ev) == {[lo |-> e.lo, hi |-> e.hi, c1 |-> e.c1, c2 |-> e.c2, type |-> e.type] : e \in SeqSet(ev.entries)}

TInit == l = 1 /\ b1 = <<[lo |-> 0, hi |-> N - 1, c |-> None]>> /\ b2 = <<[lo |-> 0, hi |-> N - 1, c |-> None]>> /\ mism = 0

CaseMismatches(ev) ==
  LET obs == Obs(ev)
      expected == {Out(rep) : rep \in RepChoices}'      \* evaluated on the case's partitions (b1', b2')
  IN (IF ev.outcome # "ok" THEN {<<"C04-diffmerge-run-failed", ev.outcome, ev.msg>>} ELSE {})
     \cup (IF ev.outcome = "ok" /\ obs \notin expected
           THEN {<<"C04-diffmerge-entries", ev.dir, "expected", ToString(CHOOSE x \in expected : TRUE), "observed", ToString(obs)>>} ELSE {})
     \cup (IF Len(ev.stray) > 0 THEN {<<"C04-diffmerge-stray-entries", ev.dir, ToString(ev.stray)>>} ELSE {})
     \cup (IF ev.outcome = "ok" /\ Len(ev.entries) # Cardinality(obs) THEN {<<"C04-diffmerge-duplicate-entries", ev.dir, ToString(ev.entries)>>} ELSE {})

TraceCase ==
  /\ l <= Len(Trace) /\ Trace[l].ev = "Case" /\ l' = l + 1
  /\ b1' = Blocks(Trace[l].b1) /\ b2' = Blocks(Trace[l].b2)
  /\ LET ms == CaseMismatches(Trace[l])
     IN /\ \A m \in ms : PrintT("MISMATCH " \o ToJson([line |-> l, wid |-> Trace[l].id, m |-> m]))
        /\ mism' = mism + Cardinality(ms)

TNext == TraceCase
TSpec == TInit /\ [][TNext]_tvars
TraceAccepted == TLCGet("stats").diameter - 1 = Len(Trace)
=============================================================================
