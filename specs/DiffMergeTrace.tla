--------------------------- MODULE DiffMergeTrace ---------------------------
(***************************************************************************)
(* Binding of DiffMerge.tla to the code: every recorded case is one input   *)
(* of DiffMerge (two partitions with connection values) together with the   *)
(* ip-block entries the real ConnDiffFromDirPaths produced for it, with     *)
(* their exact ranges.  The case is accepted iff those entries are point-    *)
(* wise exact for the case's two sides (DiffMerge!PointwiseOK: the C04       *)
(* statement), the run succeeded and the result has no other ip-block        *)
(* entries; entries that differ from DiffMerge!Out (another way of merging)  *)
(* are reported as design drift.                                             *)
(***************************************************************************)
EXTENDS DiffMerge, Json, IOUtils

TraceFile == IF "TRACE" \in DOMAIN IOEnv THEN IOEnv.TRACE ELSE "trace.ndjson"
Trace == ndJsonDeserialize(TraceFile)

VARIABLES l, mism
tvars == <<l, b1, b2, mism>>

SeqSet(s) == {s[i] : i \in DOMAIN s}
Blocks(s) == [i \in DOMAIN s |-> [lo |-> s[i].lo, hi |-> s[i].hi, c |-> s[i].c]]
Obs(ev) == {[lo |-> e.lo, hi |-> e.hi, c1 |-> e.c1, c2 |-> e.c2, type |-> e.type] : e \in SeqSet(ev.entries)}

TInit == l = 1 /\ b1 = <<[lo |-> 0, hi |-> N - 1, c |-> None]>> /\ b2 = <<[lo |-> 0, hi |-> N - 1, c |-> None]>> /\ mism = 0

(* The verdict is the C04 statement itself, point by point (PointwiseOK on the case's partitions).  HOW the ranges of equal      *)
(* pairs are merged is the design's business: entries that are point-wise right but are not the set DiffMerge!Out predicts are  *)
(* reported as design drift (DRIFT line), not as a mismatch.                                                                   *)
CaseMismatches(ev) ==
  LET obs == Obs(ev)
  IN (IF ev.outcome # "ok" THEN {<<"C04-diffmerge-run-failed", ev.outcome, ev.msg>>} ELSE {})
     \cup (IF ev.outcome = "ok" /\ ~PointwiseOKFor(Blocks(ev.b1), Blocks(ev.b2), obs)
           THEN {<<"C04-diffmerge-point", ev.dir, "side1", ToString(ev.b1), "side2", ToString(ev.b2), "observed-entries", ToString(obs)>>} ELSE {})
     \cup (IF Len(ev.stray) > 0 THEN {<<"C04-diffmerge-stray-entries", ev.dir, ToString(ev.stray)>>} ELSE {})
     \cup (IF ev.outcome = "ok" /\ Len(ev.entries) # Cardinality(obs) THEN {<<"C04-diffmerge-duplicate-entries", ev.dir, ToString(ev.entries)>>} ELSE {})
CaseDrift(ev) ==
  LET obs == Obs(ev)
      expected == {Out(rep) : rep \in RepChoices}'
  IN ev.outcome = "ok" /\ obs \notin expected

TraceCase ==
  /\ l <= Len(Trace) /\ Trace[l].ev = "Case" /\ l' = l + 1
  /\ b1' = Blocks(Trace[l].b1) /\ b2' = Blocks(Trace[l].b2)
  /\ LET ms == CaseMismatches(Trace[l])
     IN /\ \A m \in ms : PrintT("MISMATCH " \o ToJson([line |-> l, wid |-> Trace[l].id, m |-> m]))
        /\ (CaseDrift(Trace[l]) => PrintT("DRIFT " \o ToJson([line |-> l, wid |-> Trace[l].id, observed |-> ToString(Obs(Trace[l]))])))
        /\ mism' = mism + Cardinality(ms)

TNext == TraceCase
TSpec == TInit /\ [][TNext]_tvars
TraceAccepted == TLCGet("stats").diameter - 1 = Len(Trace)
=============================================================================
