CONSTANTS
  N = 4
  KeyHasBothConns = TRUE
  KeySeparated = TRUE
  SecondFromOwn = TRUE
  MergeTouching = TRUE
SPECIFICATION TSpec
POSTCONDITION TraceAccepted
CHECK_DEADLOCK FALSE
