CONSTANT N = 6
SPECIFICATION Spec
INVARIANT ConflictDetected
INVARIANT Ordered
CHECK_DEADLOCK FALSE
