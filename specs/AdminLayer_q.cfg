CONSTANTS
  NPts = 2
  MaxANP = 2
  MaxRules = 2
  MaxBRules = 2
  SampleOneIn = 4000
SPECIFICATION Spec
INVARIANT Refines
INVARIANT Sample
CHECK_DEADLOCK FALSE
