------------------------------- MODULE CliSpace -------------------------------
(***************************************************************************)
(* C18: the configuration space of `k8snetpolicy list|diff` -- every       *)
(* combination of the flags named in the property x a set of directory     *)
(* kinds.  TLC enumerates it completely (each configuration is an initial  *)
(* state); the harness runs the built binary and the corresponding library *)
(* calls for each; CliTrace accepts the recorded outcomes.                 *)
(***************************************************************************)
EXTENDS Integers, Sequences, FiniteSets, TLC, Json

ListFormats == {"txt", "json", "csv", "md", "dot", "bad", ""}      \* "": flag absent (default format)
DiffFormats == {"txt", "csv", "md", "dot", "json", ""}             \* json is not a diff format
DirKinds == {"good", "junk", "severe", "schema", "nowl", "fatal", "empty", "ingress", "admin", "missing"}
Verb == {"", "q", "v", "qv"}                                        \* qv: -q and -v together (usage error)
Focus == {"", "present", "absent", "nsname"}

ListCfgs == {[cmd |-> "list", fmt |-> f, exposure |-> x, focus |-> fo, fail |-> fa, verb |-> v, file |-> fi, dir |-> d, dir2 |-> ""] :
               f \in ListFormats, x \in BOOLEAN, fo \in Focus, fa \in BOOLEAN, v \in Verb, fi \in BOOLEAN, d \in DirKinds}
DiffCfgs == {[cmd |-> "diff", fmt |-> f, exposure |-> FALSE, focus |-> "", fail |-> fa, verb |-> v, file |-> fi, dir |-> d, dir2 |-> d2] :
               f \in DiffFormats, fa \in BOOLEAN, v \in Verb, fi \in BOOLEAN, d \in DirKinds, d2 \in {"good", "severe", "schema", "nowl", "fatal", "missing"}}

(* quick tier: a reduced but still complete product (no redundant verbosity / file combinations) *)
CONSTANT Reduced
Keep(c) == ~Reduced \/ (c.verb \in {"", "qv"} /\ (c.file => c.fmt \in {"txt", "dot", ""}) /\ (c.focus = "nsname" => c.fmt = "txt"))

VARIABLE c
Init == c \in {x \in ListCfgs \cup DiffCfgs : Keep(x)}
Next == UNCHANGED c
Spec == Init /\ [][Next]_c
Emit == PrintT("CASE " \o ToJson(c))
=============================================================================
