------------------------------- MODULE CliTrace -------------------------------
(***************************************************************************)
(* C18: acceptance of one recorded CLI run against the library calls on    *)
(* the same directory and options:                                         *)
(*   stdout = the string the library returns; -f FILE holds the same bytes *)
(*   as stdout; exit status # 0 exactly when the library call returns an   *)
(*   error; ConnlistFromResourceInfos(scanned infos) returns the same      *)
(*   connections as ConnlistFromDirPath.  A usage error that never reaches *)
(*   the library (-q with -v) may exit non-zero with empty stdout.         *)
(***************************************************************************)
EXTENDS Integers, Sequences, FiniteSets, TLC, Json, IOUtils

TraceFile == IF "TRACE" \in DOMAIN IOEnv THEN IOEnv.TRACE ELSE "trace.ndjson"
Trace == ndJsonDeserialize(TraceFile)

VARIABLES l, mism
vars == <<l, mism>>
Init == l = 1 /\ mism = 0

RunMismatches(ev) ==
  LET cfg == ev.cfg
      tag == <<cfg.cmd, cfg.fmt, cfg.exposure, cfg.focus, cfg.fail, cfg.verb, cfg.file, cfg.dir, cfg.dir2>>
      normal ==
          (IF ev.stdoutHash = ev.libHash THEN {}
           ELSE {<<"C18-stdout-differs-from-library-string", tag, ev.stdoutLen, ev.libLen, ev.stdoutHead, ev.libHead>>})
          \cup (IF (ev.exit # 0) = ev.libErr THEN {}
                ELSE {<<"C18-exit-status-vs-library-error", tag, ev.exit, ev.libErr, ev.libErrMsg>>})
          \cup (IF ~cfg.file \/ ev.exit # 0 \/ ev.fileHash = ev.stdoutHash THEN {}
                ELSE {<<"C18-file-differs-from-stdout", tag, ev.fileExists>>})
          \cup (IF cfg.cmd # "list" \/ ev.riSame THEN {}
                ELSE {<<"C18-resource-infos-api-differs-from-dirpath-api", tag, ev.riDetail>>})
  IN \* -q together with -v has no library counterpart: either it is rejected as a usage error (non-zero exit, nothing on
     \* stdout) or the command runs and then the ordinary relation must hold
     IF cfg.verb = "qv" /\ ev.exit # 0 /\ ev.stdoutLen = 0 THEN {} ELSE normal

TraceCli ==
  /\ l <= Len(Trace) /\ Trace[l].ev = "Cli" /\ l' = l + 1
  /\ LET ms == RunMismatches(Trace[l])
     IN /\ \A m \in ms : PrintT("MISMATCH " \o ToJson([line |-> l, wid |-> Trace[l].id, m |-> m]))
        /\ mism' = mism + Cardinality(ms)

Spec == Init /\ [][TraceCli]_vars
TraceAccepted == TLCGet("stats").diameter - 1 = Len(Trace)
=============================================================================
