----------------------------- MODULE IPPartition -----------------------------
(***************************************************************************)
(* Design layer of C05 / C01: how `list` cuts the external address space   *)
(* into IP peers.                                                          *)
(*   NetworkPolicy.GetReferencedIPBlocks  (eval/internal/k8s/netpol.go):   *)
(*     every ipBlock peer, in rule order, contributes                      *)
(*     Split(cidr minus the union of its excepts) -- maximal ranges;       *)
(*   PolicyEngine.getDisjointIPBlocks  (eval/resources.go):                *)
(*     DisjointIPBlocks(all referenced ranges, [0.0.0.0/0]);               *)
(*   netset.DisjointIPBlocks / addIntervalToList  (np-guard/models):       *)
(*     sort by number of addresses, then fold: the new block loses what it *)
(*     shares with each block of the list, the shared part becomes a block *)
(*     of its own when it is a proper part of the existing block, and what *)
(*     is left of the new block is appended range by range.                *)
(* ruleSelectsPeer then tests an IP peer with IsSubset(rule block): that   *)
(* is exact only if every peer is inside or outside every rule block --    *)
(* the invariant Refines below.                                            *)
(*                                                                         *)
(* Blocks are sets of addresses 0..N-1; one action per loop iteration.     *)
(* TLC explores every sequence of up to MaxRefs ipBlock peers (aligned     *)
(* CIDRs with up to two aligned excepts) and, because sort.Slice is not    *)
(* stable, EVERY order of blocks of equal size.  Checked in every state:   *)
(*   Disjoint, Ranges (each block a single non-empty contiguous range),    *)
(*   and at the end Covers (a partition of the whole space) and Refines.   *)
(* The constants SplitReferenced / SortBySize switch off one ingredient    *)
(* each (SplitReferenced = FALSE is seed C05 of round 1); TLC must refute  *)
(* those configurations.                                                   *)
(***************************************************************************)
EXTENDS Integers, Sequences, FiniteSets, TLC

CONSTANTS N,                 \* number of addresses, a power of two
          MaxRefs,           \* number of ipBlock peers
          SplitReferenced,   \* as built: TRUE
          SortBySize         \* as built: TRUE

Addr == 0..(N - 1)
Sizes == {s \in 1..N : \E k \in 0..N : 2 ^ k = s}
Cidrs == {lo..(lo + s - 1) : <<lo, s>> \in {x \in Addr \X Sizes : x[1] % x[2] = 0}}
Inside(c) == {d \in Cidrs : d \subseteq c}

Min(S) == CHOOSE a \in S : \A b \in S : a <= b
Max(S) == CHOOSE a \in S : \A b \in S : a >= b
IsRange(S) == S # {} /\ S = Min(S)..Max(S)
(* maximal ranges of a set, in ascending order (IPBlock.Split) *)
Ranges(S) == {lo..hi : <<lo, hi>> \in {x \in S \X S : x[1] <= x[2] /\ (x[1]..x[2]) \subseteq S /\ (x[1] - 1) \notin S /\ (x[2] + 1) \notin S}}
RECURSIVE AscSeq(_)
AscSeq(SS) == IF SS = {} THEN <<>> ELSE LET f == CHOOSE r \in SS : \A q \in SS : Min(r) <= Min(q) IN <<f>> \o AscSeq(SS \ {f})
Split(S) == AscSeq(Ranges(S))

VARIABLES rules,   \* the rule blocks (cidr minus excepts), as sets, in rule order
          refs,    \* referenced blocks handed to DisjointIPBlocks, in order
          phase,   \* "collect" | "sort" | "fold" | "inner" | "done"
          queue,   \* blocks still to be folded in
          list,    \* the result list under construction
          new, idx, toAdd   \* the loop state of addIntervalToList
vars == <<rules, refs, phase, queue, list, new, idx, toAdd>>

Init == /\ rules = <<>> /\ refs = <<>> /\ phase = "collect" /\ queue = <<>> /\ list = <<>>
        /\ new = {} /\ idx = 0 /\ toAdd = <<>>

(* one more ipBlock peer: cidr with up to two excepts inside it *)
AddRef ==
  /\ phase = "collect" /\ Len(rules) < MaxRefs
  /\ \E c \in Cidrs : \E e1 \in Inside(c) \cup {{}}, e2 \in Inside(c) \cup {{}} :
       LET b == c \ (e1 \cup e2)
       IN /\ rules' = Append(rules, b)
          /\ refs' = refs \o (IF SplitReferenced THEN Split(b) ELSE IF b = {} THEN <<>> ELSE <<b>>)
  /\ UNCHANGED <<phase, queue, list, new, idx, toAdd>>

(* DisjointIPBlocks(refs, [all]) *)
StartSort ==
  /\ phase = "collect"
  /\ queue' = refs \o <<Addr>>
  /\ phase' = "fold" /\ UNCHANGED <<rules, refs, list, new, idx, toAdd>>

(* sort.Slice by number of addresses, then for _, ipb := range ipbList { res = addIntervalToList(ipb, res) }:              *)
(* the next block is ANY pending block of minimal size (sort.Slice is not stable: every order of equal sizes is explored) *)
RemoveAt(q, k) == SubSeq(q, 1, k - 1) \o SubSeq(q, k + 1, Len(q))
NextBlock ==
  /\ phase = "fold" /\ queue # <<>>
  /\ \E k \in DOMAIN queue :
       /\ IF SortBySize THEN \A j \in DOMAIN queue : Cardinality(queue[k]) <= Cardinality(queue[j]) ELSE k = 1
       /\ new' = queue[k] /\ queue' = RemoveAt(queue, k)
  /\ idx' = 1 /\ toAdd' = <<>> /\ phase' = "inner"
  /\ UNCHANGED <<rules, refs, list>>

(* one iteration of the loop of addIntervalToList *)
Inner ==
  /\ phase = "inner" /\ idx <= Len(list) /\ new # {}
  /\ LET ipb == list[idx]
         inter == ipb \cap new
     IN IF inter = {}
        THEN UNCHANGED <<list, new, toAdd>>
        ELSE /\ new' = new \ inter
             /\ IF ipb # inter
                THEN toAdd' = Append(toAdd, inter) /\ list' = [list EXCEPT ![idx] = ipb \ inter]
                ELSE UNCHANGED <<toAdd, list>>
  /\ idx' = idx + 1 /\ UNCHANGED <<rules, refs, phase, queue>>

(* ipbList = append(ipbList, ipbNew.Split()...); ipbList = append(ipbList, toAdd...) *)
EndInner ==
  /\ phase = "inner" /\ (idx > Len(list) \/ new = {})
  /\ list' = list \o Split(new) \o toAdd
  /\ phase' = "fold" /\ UNCHANGED <<rules, refs, queue, new, idx, toAdd>>

Finish == /\ phase = "fold" /\ queue = <<>> /\ phase' = "done" /\ UNCHANGED <<rules, refs, queue, list, new, idx, toAdd>>

Next == AddRef \/ StartSort \/ NextBlock \/ Inner \/ EndInner \/ Finish \/ (phase = "done" /\ UNCHANGED vars)
Spec == Init /\ [][Next]_vars

---------------------------------------------------------------------------
Blocks == {list[i] : i \in DOMAIN list}
Disjoint == \A i, j \in DOMAIN list : i # j => list[i] \cap list[j] = {}
RangesOnly == phase \in {"fold", "done"} => \A i \in DOMAIN list : IsRange(list[i])
Covers == phase = "done" => UNION Blocks = Addr
Refines == phase = "done" => \A i \in DOMAIN list : \A r \in DOMAIN rules : list[i] \subseteq rules[r] \/ list[i] \cap rules[r] = {}
=============================================================================
