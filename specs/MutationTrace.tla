---------------------------- MODULE MutationTrace ----------------------------
(* C12: every run on a mutated input ends with a result or a reported error -- never a panic, never a hang. *)
EXTENDS Integers, Sequences, FiniteSets, TLC, Json, IOUtils

TraceFile == IF "TRACE" \in DOMAIN IOEnv THEN IOEnv.TRACE ELSE "trace.ndjson"
Trace == ndJsonDeserialize(TraceFile)

VARIABLES l, mism
vars == <<l, mism>>
Init == l = 1 /\ mism = 0

RunMismatches(ev) ==
  {<<"C12-" \o ev.runs[r], r, ev.case, ev.detail>> : r \in {r \in DOMAIN ev.runs : ev.runs[r] \notin {"result", "error"}}}

TraceMut ==
  /\ l <= Len(Trace) /\ Trace[l].ev = "Mut" /\ l' = l + 1
  /\ LET ms == RunMismatches(Trace[l])
     IN /\ \A m \in ms : PrintT("MISMATCH " \o ToJson([line |-> l, wid |-> Trace[l].id, m |-> m]))
        /\ mism' = mism + Cardinality(ms)

Spec == Init /\ [][TraceMut]_vars
TraceAccepted == TLCGet("stats").diameter - 1 = Len(Trace)
=============================================================================
