CONSTANTS
  Sim = TRUE
  Admin = FALSE
  Ingr = FALSE
  MaxWl = 4
  MaxNP = 3
  MaxRules = 2
  MaxANP = 3
  MaxSteps = 18
SPECIFICATION Spec
CHECK_DEADLOCK FALSE
