-------------------------------- MODULE Laws --------------------------------
(***************************************************************************)
(* Metamorphic laws attached to the edit actions of Cluster.tla            *)
(* (C14 additivity / locality / re-spelling, C17 re-expression, C02 input  *)
(* order).  A law relates the reports of two consecutive worlds of a       *)
(* behaviour.  It is stated once, over an arbitrary "connection function"  *)
(* c1(p, q), c2(p, q) giving the point set reported for a pair of abstract *)
(* peers in the world before / after the edit:                             *)
(*   - LawsRef.cfg / LawsCheck instantiate it with the reference (Conn) and*)
(*     TLC checks it on Cluster's behaviours, so the laws are known to be  *)
(*     valid consequences of the semantics before they are applied;        *)
(*   - ReplayTrace instantiates it with the two *observed* reports of the  *)
(*     real tool (oracle-free relational check).                           *)
(***************************************************************************)
EXTENDS Ref

(* pairs present in both worlds (edits never renumber workloads; RemovePolicy etc. carry no law) *)
CommonPairs(w1, w2) == ReportPairs(w1) \cap ReportPairs(w2)

Selected(w, np, dir) == {p \in {<<"w", i>> : i \in WIdx(w)} : Governs(np, WL(w, p), dir)}

LawKind(label) ==
  CASE label \in {"RespellPodSelAsIn", "RespellPeerSelAsIn", "SplitRange", "SplitCidr", "SplitPolicy",
                  "ExplicitPolicyTypes", "ReExpressWorkload", "SwapANPs"} -> "equal"
    [] label = "AddRule"   -> "addrule"
    [] label = "AddPolicy" -> "addpolicy"
    [] OTHER -> "none"

(* Returns the set of violated clauses (empty = law holds). c1/c2: operators (p, q) -> point set. *)
LawViolations(w1, w2, label, args, c1(_, _), c2(_, _)) ==
  LET pairs == CommonPairs(w1, w2)
      kind  == LawKind(label)
  IN CASE kind = "equal" ->
            {<<"C14-C17-law-equal", label, pq>> : pq \in {pq \in pairs : c1(pq[1], pq[2]) # c2(pq[1], pq[2])}}
       [] kind = "addrule" ->
            \* adding a rule in a direction the policy already governs never removes a connection
            LET i == args[1]
                dir == args[2]
            IN IF dir \in EffTypes(w1.netpols[i])
               THEN {<<"C14-addrule-removed", pq>> : pq \in {pq \in pairs : ~(c1(pq[1], pq[2]) \subseteq c2(pq[1], pq[2]))}}
               ELSE {}
       [] kind = "addpolicy" ->
            LET np == w2.netpols[args[1]]
                dirs == EffTypes(np)
                allGoverned   == \A d \in dirs : \A p \in Selected(w2, np, d) : Governing(w1, p, d) # {}
                allUngoverned == \A d \in dirs : \A p \in Selected(w2, np, d) : Governing(w1, p, d) = {}
                untouched(pq) == /\ ~("Egress" \in dirs /\ pq[1] \in Selected(w2, np, "Egress"))
                                 /\ ~("Ingress" \in dirs /\ pq[2] \in Selected(w2, np, "Ingress"))
            IN (IF allGoverned
                THEN {<<"C14-addpolicy-removed", pq>> : pq \in {pq \in pairs : ~(c1(pq[1], pq[2]) \subseteq c2(pq[1], pq[2]))}}
                ELSE {})
               \* (with a BaselineAdminNetworkPolicy the ungoverned state is not "everything allowed": a NetworkPolicy overrides
               \*  a baseline Deny, so a new policy may ADD connections -- the clause is claimed without a BANP only)
               \cup (IF allUngoverned /\ w1.banp.nil
                     THEN {<<"C14-addpolicy-added", pq>> : pq \in {pq \in pairs : ~(c2(pq[1], pq[2]) \subseteq c1(pq[1], pq[2]))}}
                     ELSE {})
               \cup {<<"C14-addpolicy-nonlocal", pq>> :
                       pq \in {pq \in pairs : untouched(pq) /\ c1(pq[1], pq[2]) # c2(pq[1], pq[2])}}
       [] OTHER -> {}

(* the laws on the reference itself *)
RefLawViolations(w1, w2, label, args) ==
  LET c1(p, q) == Conn(w1, p, q)
      c2(p, q) == Conn(w2, p, q)
  IN LawViolations(w1, w2, label, args, c1, c2)
=============================================================================
