----------------------------- MODULE EngineModel -----------------------------
(***************************************************************************)
(* Machine M2, abstract level: eval.PolicyEngine as "the current objects". *)
(* The state `cur` has the shape of a Ref world whose workloads are the    *)
(* individual pods, so that Ref's semantics gives the expected reply of    *)
(* every query.  The model of "current objects" follows the engine's       *)
(* documented behaviour (DESIGN.md 6/C15):                                 *)
(*   - namespaces and pods are upserts;                                    *)
(*   - inserting a NetworkPolicy / AdminNetworkPolicy whose name exists, a *)
(*     second BANP, or a BANP not named "default" is an error and changes  *)
(*     nothing;                                                            *)
(*   - deleting anything absent is a no-op.                                *)
(* An operation is a record [op, ...]; Apply returns the next state and    *)
(* the outcome class ("ok" / "error").                                     *)
(***************************************************************************)
EXTENDS Ref

EmptyEngine(M, pointPorts, nAddr) ==
  [M |-> M, pointPorts |-> pointPorts, nAddr |-> nAddr, hasOut |-> FALSE,
   namespaces |-> <<>>, workloads |-> <<>>, netpols |-> <<>>, anps |-> <<>>,
   banp |-> [nil |-> TRUE, name |-> "default",
             subject |-> [kind |-> "namespaces", nsSel |-> [ml |-> <<>>, ex |-> <<>>], podSel |-> [ml |-> <<>>, ex |-> <<>>]],
             ingress |-> <<>>, egress |-> <<>>],
   services |-> <<>>, ingresses |-> <<>>, routes |-> <<>>]

Idx(s, P(_)) == {i \in DOMAIN s : P(s[i])}
Upsert(s, x, Same(_)) ==
  IF Idx(s, Same) = {} THEN Append(s, x)
  ELSE [i \in DOMAIN s |-> IF Same(s[i]) THEN x ELSE s[i]]
Remove(s, Same(_)) == SelectSeq(s, LAMBDA y : ~Same(y))

(* a pod travels as [ns, name, owner, ownerKind, labels, ports]; in `cur` it is a bare workload *)
PodAsWl(p) == [ns |-> p.ns, name |-> p.name, labels |-> p.labels, ports |-> p.ports,
               kind |-> IF p.owner = "" THEN "Pod" ELSE p.ownerKind, expr |-> "bare",
               replicas |-> -1, podCount |-> 1, owner |-> p.owner]

ApplyBasic(cur, o) ==
  CASE o.op = "InsNs" ->
         [cur |-> [cur EXCEPT !.namespaces =
                      Upsert(@, [name |-> o.nso.name, hasObject |-> TRUE, labels |-> o.nso.labels],
                             LAMBDA n : n.name = o.nso.name)],
          res |-> "ok"]
    [] o.op = "DelNs" ->
         [cur |-> [cur EXCEPT !.namespaces = Remove(@, LAMBDA n : n.name = o.name)], res |-> "ok"]
    [] o.op = "InsPod" ->
         [cur |-> [cur EXCEPT !.workloads = Upsert(@, PodAsWl(o.pod), LAMBDA p : p.ns = o.pod.ns /\ p.name = o.pod.name)],
          res |-> "ok"]
    [] o.op = "DelPod" ->
         [cur |-> [cur EXCEPT !.workloads = Remove(@, LAMBDA p : p.ns = o.ns /\ p.name = o.name)], res |-> "ok"]
    [] o.op = "InsNP" ->
         IF Idx(cur.netpols, LAMBDA n : n.ns = o.np.ns /\ n.name = o.np.name) # {}
         THEN [cur |-> cur, res |-> "error"]
         ELSE [cur |-> [cur EXCEPT !.netpols = Append(@, o.np)], res |-> "ok"]
    [] o.op = "DelNP" ->
         [cur |-> [cur EXCEPT !.netpols = Remove(@, LAMBDA n : n.ns = o.ns /\ n.name = o.name)], res |-> "ok"]
    [] o.op = "InsANP" ->
         IF Idx(cur.anps, LAMBDA a : a.name = o.anp.name) # {}
         THEN [cur |-> cur, res |-> "error"]
         ELSE [cur |-> [cur EXCEPT !.anps = Append(@, o.anp)], res |-> "ok"]
    [] o.op = "DelANP" ->
         [cur |-> [cur EXCEPT !.anps = Remove(@, LAMBDA a : a.name = o.name)], res |-> "ok"]
    [] o.op = "InsBANP" ->
         IF ~cur.banp.nil \/ o.banp.name # "default"
         THEN [cur |-> cur, res |-> "error"]
         ELSE [cur |-> [cur EXCEPT !.banp = o.banp], res |-> "ok"]
    [] o.op = "DelBANP" ->
         IF ~cur.banp.nil /\ cur.banp.name = o.name
         THEN [cur |-> [cur EXCEPT !.banp.nil = TRUE], res |-> "ok"]
         ELSE [cur |-> cur, res |-> "ok"]
    [] o.op = "Clear" ->
         [cur |-> EmptyEngine(cur.M, cur.pointPorts, cur.nAddr), res |-> "ok"]

(* SetResources(policies, pods, namespaces): "simply calls InsertObject" -- the namespaces, then the policies, then the pods,  *)
(* and it returns at the first error (what was inserted before stays)                                                        *)
RECURSIVE ApplySeq(_, _)
ApplySeq(cur, ops) ==
  IF ops = <<>> THEN [cur |-> cur, res |-> "ok"]
  ELSE LET a == ApplyBasic(cur, Head(ops))
       IN IF a.res # "ok" THEN a ELSE ApplySeq(a.cur, Tail(ops))

Apply(cur, o) ==
  IF o.op = "SetRes"
  THEN ApplySeq(cur, [i \in 1..Len(o.nss) |-> [op |-> "InsNs", nso |-> o.nss[i]]]
                     \o [i \in 1..Len(o.nps) |-> [op |-> "InsNP", np |-> o.nps[i]]]
                     \o [i \in 1..Len(o.pods) |-> [op |-> "InsPod", pod |-> o.pods[i]]])
  ELSE ApplyBasic(cur, o)

(* endpoint of a query: <<"p", ns, name>> or <<"a", class, "">> *)
PodIndex(cur, ns, name) == Idx(cur.workloads, LAMBDA p : p.ns = ns /\ p.name = name)
NsPresent(cur, ns) == Idx(cur.namespaces, LAMBDA n : n.name = ns) # {}

EndpointOK(cur, e) == e[1] = "a" \/ (PodIndex(cur, e[2], e[3]) # {} /\ NsPresent(cur, e[2]))
PeerOf(cur, e) == IF e[1] = "a" THEN <<"a", e[2]>> ELSE <<"w", CHOOSE i \in PodIndex(cur, e[2], e[3]) : TRUE>>

(* 0 false, 1 true, 2 error (unknown pod, or a pod whose namespace the engine does not hold) *)
ExpectedReply(cur, s, d, pt) ==
  IF ~EndpointOK(cur, s) \/ ~EndpointOK(cur, d) THEN 2
  ELSE IF s[1] = "a" /\ d[1] = "a" THEN 2
  ELSE IF EvalAllowed(cur, PeerOf(cur, s), PeerOf(cur, d), pt) THEN 1 ELSE 0
=============================================================================
