CONSTANTS
  Sim = TRUE
  Small = FALSE
  MaxSteps = 25
  M = 3
  NR = 3
SPECIFICATION Spec
INVARIANT AlgebraOK
CHECK_DEADLOCK FALSE
