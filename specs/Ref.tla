-------------------------------- MODULE Ref --------------------------------
(***************************************************************************)
(* Reference layer: what the listed properties demand, written point-wise  *)
(* and declaratively over an abstract "world" (see DESIGN.md, Appendix A). *)
(* No algorithm of the tool is mirrored here: no connection-set algebra,   *)
(* no Allowed/Denied/Pass bookkeeping, no IP partitioning.  A world is the *)
(* record produced by JSON deserialisation (records + sequences only).     *)
(*                                                                         *)
(* Typing rule: a peer is a tagged tuple <<"w", i>> (i-th workload of the  *)
(* world) or <<"a", a>> (abstract address class a); a point is a tuple     *)
(* <<proto, n>> with n a model port.                                       *)
(***************************************************************************)
EXTENDS Integers, Sequences, FiniteSets, TLC

Range(s) == {s[i] : i \in DOMAIN s}
Protos == {"TCP", "UDP", "SCTP"}
NameKey == "kubernetes.io/metadata.name"

---------------------------------------------------------------------------
(* Labels and selectors                                                    *)
HasLabel(L, k) == k \in DOMAIN L

ExprMatch(e, L) ==
  CASE e.op = "In"           -> HasLabel(L, e.key) /\ L[e.key] \in Range(e.vals)
    [] e.op = "NotIn"        -> ~HasLabel(L, e.key) \/ L[e.key] \notin Range(e.vals)
    [] e.op = "Exists"       -> HasLabel(L, e.key)
    [] e.op = "DoesNotExist" -> ~HasLabel(L, e.key)

SelMatch(s, L) == /\ \A k \in DOMAIN s.ml : HasLabel(L, k) /\ L[k] = s.ml[k]
                  /\ \A i \in DOMAIN s.ex : ExprMatch(s.ex[i], L)

SelEmpty(s) == DOMAIN s.ml = {} /\ Len(s.ex) = 0

(* Labels of a namespace: those of its Namespace object (if the input has  *)
(* one) plus the automatic name label.                                     *)
NsLabels(w, nsName) ==
  LET objs == {i \in DOMAIN w.namespaces :
                  w.namespaces[i].name = nsName /\ w.namespaces[i].hasObject}
  IN IF objs = {} THEN (NameKey :> nsName)
     ELSE LET n == w.namespaces[CHOOSE i \in objs : TRUE]
          IN IF NameKey \in DOMAIN n.labels THEN n.labels
             ELSE [k \in (DOMAIN n.labels) \cup {NameKey} |->
                      IF k = NameKey THEN nsName ELSE n.labels[k]]

---------------------------------------------------------------------------
(* Universe of a world                                                     *)
Ports(w)     == 1..w.M
AllPoints(w) == Protos \X Ports(w)
(* address classes 0..nAddr-1; when the world is embedded under a prefix   *)
(* (hasOut) two more classes: nAddr = everything below the embedded block, *)
(* nAddr+1 = everything above it (matched only by the 0.0.0.0/0 block)     *)
Addrs(w)     == IF w.hasOut THEN 0..(w.nAddr + 1) ELSE 0..(w.nAddr - 1)
WIdx(w)      == DOMAIN w.workloads
Peers(w)     == {<<"w", i>> : i \in WIdx(w)} \cup {<<"a", a>> : a \in Addrs(w)}
IsW(p)       == p[1] = "w"
WL(w, p)     == w.workloads[p[2]]

(* cidr = [all, lo, hi]; all = the 0.0.0.0/0 block (covers the OUT class)  *)
CidrSet(w, c) == IF c.all THEN Addrs(w) ELSE c.lo..c.hi
BlockSet(w, pr) == CidrSet(w, pr.cidr) \ UNION {CidrSet(w, pr.excepts[i]) : i \in DOMAIN pr.excepts}

(* the peer name the tool prints for a workload                            *)
WKey(wl) == wl.ns \o "/" \o wl.name \o "[" \o wl.kind \o "]"

---------------------------------------------------------------------------
(* NetworkPolicy semantics                                                 *)
EffTypes(np) ==
  IF np.typesNil \/ Len(np.types) = 0
  THEN {"Ingress"} \cup (IF Len(np.egress) > 0 THEN {"Egress"} ELSE {})
  ELSE Range(np.types)

Governs(np, wl, dir) == np.ns = wl.ns /\ dir \in EffTypes(np) /\ SelMatch(np.podSel, wl.labels)

Governing(w, p, dir) ==
  IF IsW(p) THEN {i \in DOMAIN w.netpols : Governs(w.netpols[i], WL(w, p), dir)} ELSE {}

(* does one NetworkPolicyPeer select `other`?                              *)
NPPeerSelects(w, np, pr, other) ==
  IF pr.kind = "ip"
  THEN ~IsW(other) /\ other[2] \in BlockSet(w, pr)
  ELSE /\ IsW(other)
       /\ LET wl == WL(w, other)
          IN /\ IF pr.nsNil THEN wl.ns = np.ns ELSE SelMatch(pr.nsSel, NsLabels(w, wl.ns))
             /\ (pr.podNil \/ SelMatch(pr.podSel, wl.labels))

NPRuleSelects(w, np, rule, other) ==
  Len(rule.peers) = 0 \/ \E i \in DOMAIN rule.peers : NPPeerSelects(w, np, rule.peers[i], other)

(* container ports of a destination carrying a name on a protocol          *)
NamedOn(w, dst, name, proto) ==
  IF IsW(dst)
  THEN {c.port : c \in {c \in Range(WL(w, dst).ports) : c.name = name /\ c.proto = proto}}
  ELSE {}

NPPortPoints(w, p, dst) ==
  LET pr == IF p.protoNil THEN "TCP" ELSE p.proto
  IN CASE p.kind = "none" -> {pr} \X Ports(w)
       [] p.kind = "num"  -> {pr} \X (p.num..(IF p.endNil THEN p.num ELSE p.end))
       [] p.kind = "name" -> {pr} \X NamedOn(w, dst, p.name, pr)

NPRulePoints(w, rule, dst) ==
  IF Len(rule.ports) = 0 THEN AllPoints(w)
  ELSE UNION {NPPortPoints(w, rule.ports[i], dst) : i \in DOMAIN rule.ports}

NPRules(np, dir) == IF dir = "Egress" THEN np.egress ELSE np.ingress

(* the set of points the NetworkPolicy layer allows for subject in dir     *)
NPAllowedPoints(w, subject, other, dst, dir) ==
  UNION {UNION {IF NPRuleSelects(w, w.netpols[i], NPRules(w.netpols[i], dir)[r], other)
                THEN NPRulePoints(w, NPRules(w.netpols[i], dir)[r], dst) ELSE {}
                : r \in DOMAIN NPRules(w.netpols[i], dir)}
         : i \in Governing(w, subject, dir)}

(* The documented deviation (C01): a named port that would have to be      *)
(* resolved on an IP destination is a fatal error.  Whether the tool gets  *)
(* there depends on rule order (it stops scanning once everything is       *)
(* allowed), so the reference only says when the error is *permitted*:     *)
(* some policy that governs some workload for egress has a rule that       *)
(* matches some address class and lists a named port.                      *)
MayFailNamedPortOnIP(w) ==
  \E p \in {<<"w", i>> : i \in WIdx(w)} : \E i \in Governing(w, p, "Egress") :
    \E r \in DOMAIN w.netpols[i].egress :
      LET rule == w.netpols[i].egress[r]
      IN /\ \E j \in DOMAIN rule.ports : rule.ports[j].kind = "name"
         /\ \E a \in Addrs(w) : NPRuleSelects(w, w.netpols[i], rule, <<"a", a>>)

---------------------------------------------------------------------------
(* AdminNetworkPolicy / BaselineAdminNetworkPolicy semantics               *)
SubjectSelects(w, s, p) ==
  /\ IsW(p)
  /\ LET wl == WL(w, p)
     IN IF s.kind = "namespaces" THEN SelMatch(s.nsSel, NsLabels(w, wl.ns))
        ELSE SelMatch(s.nsSel, NsLabels(w, wl.ns)) /\ SelMatch(s.podSel, wl.labels)

ARules(a, dir) == IF dir = "Egress" THEN a.egress ELSE a.ingress

(* an admin policy affects a direction iff it has rules there              *)
AdminApplies(w, a, subject, dir) == Len(ARules(a, dir)) > 0 /\ SubjectSelects(w, a.subject, subject)

(* namedPort resolves on the destination pod, with the pod's protocol      *)
APortPoints(w, p, dst) ==
  CASE p.kind = "number" -> {<<p.proto, p.lo>>}
    [] p.kind = "range"  -> {p.proto} \X (p.lo..p.hi)
    [] p.kind = "named"  ->
         IF IsW(dst)
         THEN LET cs == {i \in DOMAIN WL(w, dst).ports : WL(w, dst).ports[i].name = p.name}
              IN IF cs = {} THEN {}
                 ELSE LET c == WL(w, dst).ports[CHOOSE i \in cs : \A j \in cs : i <= j]
                      IN {<<c.proto, c.port>>}
         ELSE {}

ARulePoints(w, rule, dst) ==
  IF rule.portsNil THEN AllPoints(w)
  ELSE UNION {APortPoints(w, rule.ports[i], dst) : i \in DOMAIN rule.ports}

ARuleMatches(w, rule, other, dst, pt) ==
  /\ \E i \in DOMAIN rule.peers : SubjectSelects(w, rule.peers[i], other)
  /\ pt \in ARulePoints(w, rule, dst)

(* first matching rule of one policy: its action, or "None"                *)
RECURSIVE FirstRule(_, _, _, _, _, _)
FirstRule(w, rules, k, other, dst, pt) ==
  IF k > Len(rules) THEN "None"
  ELSE IF ARuleMatches(w, rules[k], other, dst, pt) THEN rules[k].action
       ELSE FirstRule(w, rules, k + 1, other, dst, pt)

(* ANPs applying to subject in dir, as a set of indices; scanned by        *)
(* ascending priority -- a function of the priorities only                 *)
RECURSIVE ANPScan(_, _, _, _, _, _, _)
ANPScan(w, S, dir, subject, other, dst, pt) ==
  IF S = {} THEN "None"
  ELSE LET i == CHOOSE i \in S : \A j \in S : w.anps[i].priority <= w.anps[j].priority
           r == FirstRule(w, ARules(w.anps[i], dir), 1, other, dst, pt)
       IN IF r # "None" THEN r ELSE ANPScan(w, S \ {i}, dir, subject, other, dst, pt)

ANPVerdict(w, dir, subject, other, dst, pt) ==
  ANPScan(w, {i \in DOMAIN w.anps : AdminApplies(w, w.anps[i], subject, dir)},
          dir, subject, other, dst, pt)

BANPVerdict(w, dir, subject, other, dst, pt) ==
  IF w.banp.nil \/ ~AdminApplies(w, w.banp, subject, dir) THEN "None"
  ELSE FirstRule(w, ARules(w.banp, dir), 1, other, dst, pt)

---------------------------------------------------------------------------
(* One direction, all layers (C02)                                         *)
DirAllowed(w, src, dst, dir, pt) ==
  LET subject == IF dir = "Egress" THEN src ELSE dst
      other   == IF dir = "Egress" THEN dst ELSE src
  IN IF ~IsW(subject) THEN TRUE          \* no policy of any kind selects an address
     ELSE LET a == ANPVerdict(w, dir, subject, other, dst, pt)
          IN \/ a = "Allow"
             \/ /\ a \in {"Pass", "None"}
                /\ IF Governing(w, subject, dir) # {}
                   THEN pt \in NPAllowedPoints(w, subject, other, dst, dir)
                   ELSE BANPVerdict(w, dir, subject, other, dst, pt) # "Deny"

(* faster: whole point set of one direction                                *)
DirPoints(w, src, dst, dir) ==
  LET subject == IF dir = "Egress" THEN src ELSE dst
      other   == IF dir = "Egress" THEN dst ELSE src
  IN IF ~IsW(subject) THEN AllPoints(w)
     ELSE LET gov   == Governing(w, subject, dir) # {}
              npPts == IF gov THEN NPAllowedPoints(w, subject, other, dst, dir) ELSE {}
              noAdm == Len(w.anps) = 0 /\ w.banp.nil
          IN IF noAdm THEN (IF gov THEN npPts ELSE AllPoints(w))
             ELSE {pt \in AllPoints(w) :
                     LET a == ANPVerdict(w, dir, subject, other, dst, pt)
                     IN \/ a = "Allow"
                        \/ /\ a \in {"Pass", "None"}
                           /\ IF gov THEN pt \in npPts
                              ELSE BANPVerdict(w, dir, subject, other, dst, pt) # "Deny"}

Conn(w, src, dst) == DirPoints(w, src, dst, "Egress") \cap DirPoints(w, src, dst, "Ingress")

(* pairs the report speaks about: different peers, not two addresses       *)
ReportPairs(w) == {pq \in Peers(w) \X Peers(w) :
                     pq[1] # pq[2] /\ (IsW(pq[1]) \/ IsW(pq[2]))}

(* eval (C03): same semantics; a pod to itself is always allowed           *)
EvalAllowed(w, src, dst, pt) == src = dst \/ pt \in Conn(w, src, dst)

=============================================================================
