------------------------------ MODULE AdminLayer ------------------------------
(***************************************************************************)
(* Design layer for C02: the bookkeeping by which the tool combines the    *)
(* three policy layers for one (src, dst, direction):                      *)
(*   PolicyConnections{Allowed, Denied, Pass}                              *)
(*   UpdateWithRuleConns   (one ANP/BANP rule, later rules lose to earlier)*)
(*   CollectANPConns       (next ANP by priority loses to earlier ones)    *)
(*   DeterminesAllConns    (shortcut)                                      *)
(*   the three-way switch of allAllowedXgressConnections                   *)
(*   CollectAllowedConnsFromNetpols / CollectConnsFromBANP                 *)
(* is transcribed operator by operator (Impl) and compared, for EVERY      *)
(* state TLC can build within the bound, with the declarative first-match  *)
(* semantics of the property (Spec'd in Ref as DirAllowed; restated here   *)
(* over an abstract point universe as RefAllowed).                         *)
(* A state = up to MaxANP ANPs (in priority order) of up to MaxRules rules *)
(* whose peers select the other end, each rule an action and ANY subset of *)
(* the points (incl. the empty one: `ports: []`), an optional NetworkPolicy*)
(* layer (captured + allowed subset) and an optional BANP of up to         *)
(* MaxBRules rules.  The states are built by actions (not in Init) so that *)
(* TLC's workers share the enumeration.                                    *)
(* A random sample of the states is printed as abstract worlds and         *)
(* replayed end-to-end on the real tool (C02 conformance).                 *)
(***************************************************************************)
EXTENDS Integers, Sequences, FiniteSets, TLC, Json

CONSTANTS NPts, MaxANP, MaxRules, MaxBRules, SampleOneIn

Pts == 1..NPts
All == Pts
Rule(a, ps) == [action |-> a, pts |-> ps]

VARIABLES anps,   \* sequence (by ascending priority) of sequences of rules
          np,     \* [captured |-> BOOLEAN, allowed |-> SUBSET Pts]
          banp,   \* [present |-> BOOLEAN, rules |-> sequence of rules with action in {Allow, Deny}]
          phase   \* 1: building ANPs, 2: NP chosen, 3: BANP being built
vars == <<anps, np, banp, phase>>

Init == anps = <<>> /\ np = [captured |-> FALSE, allowed |-> {}] /\ banp = [present |-> FALSE, rules |-> <<>>] /\ phase = 1

NewANP == /\ phase = 1 /\ Len(anps) < MaxANP
          /\ \E a \in {"Allow", "Deny", "Pass"}, ps \in SUBSET Pts :
               anps' = Append(anps, <<Rule(a, ps)>>)
          /\ UNCHANGED <<np, banp, phase>>
AddRule == /\ phase = 1 /\ Len(anps) > 0 /\ Len(anps[Len(anps)]) < MaxRules
           /\ \E a \in {"Allow", "Deny", "Pass"}, ps \in SUBSET Pts :
                anps' = [anps EXCEPT ![Len(anps)] = Append(@, Rule(a, ps))]
           /\ UNCHANGED <<np, banp, phase>>
ChooseNP == /\ phase = 1
            /\ \E c \in BOOLEAN, al \in SUBSET Pts :
                 /\ (~c => al = {})
                 /\ np' = [captured |-> c, allowed |-> al]
            /\ phase' = 2 /\ UNCHANGED <<anps, banp>>
AddBANPRule == /\ phase \in {2, 3} /\ Len(banp.rules) < MaxBRules
               /\ \E a \in {"Allow", "Deny"}, ps \in SUBSET Pts :
                    banp' = [present |-> TRUE, rules |-> Append(banp.rules, Rule(a, ps))]
               /\ phase' = 3 /\ UNCHANGED <<anps, np>>
(* a BANP that is present but none of whose rules selects the peers *)
EmptyBANP == /\ phase = 2 /\ banp' = [present |-> TRUE, rules |-> <<>>] /\ phase' = 3 /\ UNCHANGED <<anps, np>>

Next == NewANP \/ AddRule \/ ChooseNP \/ AddBANPRule \/ EmptyBANP
Spec == Init /\ [][Next]_vars

---------------------------------------------------------------------------
(* the implementation, operator by operator *)
PC(a, d, p) == [A |-> a, D |-> d, P |-> p]
EmptyPC == PC({}, {}, {})
PCEmpty(pc) == pc.A = {} /\ pc.D = {} /\ pc.P = {}

UpdateWithRuleConns(pc, r) ==
  CASE r.action = "Allow" -> [pc EXCEPT !.A = @ \cup ((r.pts \ pc.D) \ pc.P)]
    [] r.action = "Deny"  -> [pc EXCEPT !.D = @ \cup ((r.pts \ pc.A) \ pc.P)]
    [] r.action = "Pass"  -> [pc EXCEPT !.P = @ \cup ((r.pts \ pc.A) \ pc.D)]

RECURSIVE FoldRules(_, _, _)
FoldRules(pc, rules, k) == IF k > Len(rules) THEN pc ELSE FoldRules(UpdateWithRuleConns(pc, rules[k]), rules, k + 1)
SingleANP(rules) == FoldRules(EmptyPC, rules, 1)

CollectANPConns(pc, new) ==
  LET d == (new.D \ pc.A) \ pc.P
      a == (new.A \ pc.D) \ pc.P
      p == (new.P \ pc.D) \ pc.A
  IN PC(pc.A \cup a, pc.D \cup d, pc.P \cup p)

RECURSIVE FoldANPs(_, _)
FoldANPs(pc, k) ==
  IF k > Len(anps) THEN pc
  ELSE LET s == SingleANP(anps[k])
       IN FoldANPs(IF PCEmpty(s) THEN pc ELSE CollectANPConns(pc, s), k + 1)   \* only a relevant ANP is collected

ImplAllowed ==
  LET pc == FoldANPs(EmptyPC, 1)
      anpCaptured == ~PCEmpty(pc)
  IN IF anpCaptured /\ (pc.A \cup pc.D) = All THEN pc.A                         \* DeterminesAllConns shortcut
     ELSE IF np.captured /\ ~anpCaptured THEN np.allowed
     ELSE IF np.captured /\ anpCaptured THEN pc.A \cup (np.allowed \ pc.D)      \* CollectAllowedConnsFromNetpols
     ELSE \* delegate to the BANP / system default
          LET b0 == IF banp.present THEN FoldRules(EmptyPC, banp.rules, 1) ELSE EmptyPC
              b == IF PCEmpty(b0) THEN PC(All, {}, {}) ELSE b0                  \* nothing captured: allow-all default
              den == pc.D \cup (b.D \ pc.A)                                     \* CollectConnsFromBANP
          IN All \ den

---------------------------------------------------------------------------
(* the property, point-wise *)
RECURSIVE FirstIn(_, _, _)
FirstIn(rules, k, pt) == IF k > Len(rules) THEN "None"
                         ELSE IF pt \in rules[k].pts THEN rules[k].action ELSE FirstIn(rules, k + 1, pt)
RECURSIVE FirstANP(_, _)
FirstANP(k, pt) == IF k > Len(anps) THEN "None"
                   ELSE LET r == FirstIn(anps[k], 1, pt) IN IF r # "None" THEN r ELSE FirstANP(k + 1, pt)

RefAllowed ==
  {pt \in Pts :
     LET a == FirstANP(1, pt)
     IN \/ a = "Allow"
        \/ /\ a \in {"Pass", "None"}
           /\ IF np.captured THEN pt \in np.allowed
              ELSE (IF banp.present THEN FirstIn(banp.rules, 1, pt) ELSE "None") # "Deny"}

Refines == ImplAllowed = RefAllowed

---------------------------------------------------------------------------
(* a sample of the states, as abstract worlds (two workloads in one namespace; point k = TCP model-port range) *)
L1(k, v) == (k :> v)
ESel == [ml |-> <<>>, ex |-> <<>>]
MSel(k, v) == [ml |-> L1(k, v), ex |-> <<>>]
PodSubj(v) == [kind |-> "pods", nsSel |-> ESel, podSel |-> MSel("app", v)]
PtLo(k) == IF k = 1 THEN 1 ELSE IF k = 2 THEN 3 ELSE 5
PtHi(k) == IF k = 1 THEN 2 ELSE IF k = 2 THEN (IF NPts = 2 THEN 5 ELSE 4) ELSE 5
SetToSeq(S) == LET RECURSIVE f(_)
                   f(T) == IF T = {} THEN <<>> ELSE LET x == CHOOSE x \in T : \A y \in T : x <= y IN <<x>> \o f(T \ {x})
               IN f(S)
APorts(ps) == [k \in 1..Cardinality(ps) |->
                 [kind |-> "range", proto |-> "TCP", lo |-> PtLo(SetToSeq(ps)[k]), hi |-> PtHi(SetToSeq(ps)[k]), name |-> ""]]
(* dir = "Ingress": the policies are about d, the peer is s; "Egress": about s, the peer is d *)
ARuleOf(r, n, dir) == [name |-> n, action |-> r.action, peers |-> <<PodSubj(IF dir = "Ingress" THEN "s" ELSE "d")>>,
                       portsNil |-> FALSE, ports |-> APorts(r.pts)]
NPPorts(ps) == [k \in 1..Cardinality(ps) |->
                  [protoNil |-> FALSE, proto |-> "TCP", kind |-> "num", num |-> PtLo(SetToSeq(ps)[k]), name |-> "",
                   endNil |-> FALSE, end |-> PtHi(SetToSeq(ps)[k])]]
WorldOf(dir) ==
  LET subj == IF dir = "Ingress" THEN "d" ELSE "s"
      peer == IF dir = "Ingress" THEN "s" ELSE "d"
      rulesOf(rs, pfx) == [k \in DOMAIN rs |-> ARuleOf(rs[k], pfx \o ToString(k), dir)]
      anp(k) == [name |-> "anp" \o ToString(k), priority |-> 10 * k, subject |-> PodSubj(subj),
                 ingress |-> IF dir = "Ingress" THEN rulesOf(anps[k], "r") ELSE <<>>,
                 egress  |-> IF dir = "Egress" THEN rulesOf(anps[k], "r") ELSE <<>>]
      nprule == [peers |-> <<[kind |-> "pod", nsNil |-> TRUE, nsSel |-> ESel, podNil |-> FALSE, podSel |-> MSel("app", peer),
                              cidr |-> [all |-> FALSE, lo |-> 1, hi |-> 0], excepts |-> <<>>]>>, ports |-> NPPorts(np.allowed)]
      netpol == [ns |-> "ns1", name |-> "np1", podSel |-> MSel("app", subj), typesNil |-> FALSE, types |-> <<dir>>,
                 ingress |-> IF dir = "Ingress" /\ np.allowed # {} THEN <<nprule>> ELSE <<>>,
                 egress  |-> IF dir = "Egress" /\ np.allowed # {} THEN <<nprule>> ELSE <<>>]
      wl(n) == [ns |-> "ns1", name |-> n, labels |-> L1("app", n), ports |-> <<>>, kind |-> "Deployment", expr |-> "controller",
                replicas |-> -1, podCount |-> 1]
  IN [M |-> 5, pointPorts |-> <<2, 4>>, nAddr |-> 2, hasOut |-> FALSE,
      namespaces |-> <<[name |-> "ns1", hasObject |-> TRUE, labels |-> L1("team", "x")]>>,
      workloads |-> <<wl("s"), wl("d")>>,
      netpols |-> IF np.captured THEN <<netpol>> ELSE <<>>,
      anps |-> [k \in DOMAIN anps |-> anp(k)],
      banp |-> [nil |-> ~banp.present, name |-> "default", subject |-> PodSubj(subj),
                ingress |-> IF dir = "Ingress" THEN rulesOf(banp.rules, "b") ELSE <<>>,
                egress  |-> IF dir = "Egress" THEN rulesOf(banp.rules, "b") ELSE <<>>],
      services |-> <<>>, ingresses |-> <<>>, routes |-> <<>>]

Sample == (phase >= 2 /\ RandomElement(1..SampleOneIn) = 1) =>
            PrintT("CASE " \o ToJson([label |-> "AdminLayer", args |-> <<>>, step |-> 0,
                                      world |-> WorldOf(IF RandomElement(1..2) = 1 THEN "Ingress" ELSE "Egress")]))
=============================================================================
