----------------------------- MODULE CacheDesign -----------------------------
(***************************************************************************)
(* Design layer of C15: the memoisation of CheckIfAllowed verdicts          *)
(* (pkg/netpol/eval/eval_cache.go) and the invalidation calls in            *)
(* pkg/netpol/eval/resources.go, one action per public entry point, the     *)
(* way the code does it -- including its deliberate behaviours:             *)
(*   - a verdict is memoised per (owner key of src, owner key of dst,       *)
(*     query), only when both pods have an owner; a pod to itself is        *)
(*     answered before the cache is consulted;                              *)
(*   - the owner key is namespace / owner name / label variant / named      *)
(*     container ports (getPodOwnerKey);                                    *)
(*   - insertPod overwrites the pod and registers it under its NEW owner    *)
(*     key (the registration under a previous key is not removed);          *)
(*   - deletePod unregisters the pod and, when no pod is registered for     *)
(*     the key any more (or the registry was reset by a purge), drops every *)
(*     memoised verdict that mentions the key (deleteWorkload);             *)
(*   - every insert / delete of a namespace, NetworkPolicy, ANP or BANP     *)
(*     purges the cache AND resets the registry (evalCache.clear).          *)
(* What a verdict may depend on is abstracted by Truth: an injective        *)
(* encoding of everything the evaluation reads -- the two pods' namespaces, *)
(* label variants and named ports, the label versions of the two            *)
(* namespaces, the version of the policy set and the query.  It does not    *)
(* read owner names or pod names.                                           *)
(*                                                                         *)
(* TLC checks, for every reachable state of the bound,                      *)
(*   CacheCoherent: every memoised verdict equals Truth for EVERY current   *)
(*                  pod pair that maps to its key;                          *)
(*   ReplyCorrect:  every reply equals Truth (what a fresh engine holding   *)
(*                  the same objects computes).                             *)
(* The constants say what the key is made of and which updates purge: the   *)
(* as-built configuration sets them all TRUE; each of the others            *)
(* reproduces a defect of the pinned tree or a seeded change (D4: no purge  *)
(* on namespace / admin-policy updates, D20: key without named ports,       *)
(* seed C03b: key without namespace) and TLC must find the counterexample,  *)
(* which shows the invariants are not vacuous.                              *)
(* Binding to the code: EngineTrace.tla evaluates CacheCoherent on the      *)
(* implementation's cache after every operation (Peek events read through   *)
(* the hook VerifCachePeek), with EngineModel!ExpectedReply as Truth.       *)
(***************************************************************************)
EXTENDS Integers, FiniteSets, TLC

CONSTANTS KeyHasNamespace, KeyHasLabels, KeyHasPorts,   \* what getPodOwnerKey is made of
          PurgeOnNamespace, PurgeOnPolicy,              \* which updates call evalCache.clear
          LVs, PVs,
          FaithfulRegistry,                             \* TRUE: ownerToPods is modelled as the code keeps it; FALSE: whether deletePod
                                                        \* drops the verdicts of the pod's owner key is left open (both ways explored) --
                                                        \* an over-approximation that removes the registry from the state (exhaustive runs)
          MaxVer,                                       \* bound on the version counters
          MaxCached                                     \* bound on the number of memoised verdicts (state constraint)

Nss    == {"n1", "n2"}
PodIds == {<<"n1", "p1">>, <<"n1", "p2">>, <<"n2", "p1">>}     \* (namespace, name)
Owners == {"", "a"}                                            \* "" = a pod without owner
(* LVs: label variants, PVs: named-port declarations -- constants, so that a configuration varies one dimension at a time *)
Absent == [present |-> FALSE, owner |-> "", lv |-> 1, pv |-> 1]
ASSUME 1 \in LVs /\ 1 \in PVs

VARIABLES pods,      \* [PodIds -> pod record]
          nsver,     \* [Nss -> 0..MaxVer]   labels of the namespace (changed by insert / delete of the namespace object)
          polver,    \* 0..MaxVer            the set of NetworkPolicies / ANPs / BANP
          cache,     \* memoised verdicts: a function from keys to Truth values
          registry,  \* ownerToPods: owner key -> set of pod ids
          reply      \* whether the last reply was what a fresh engine computes (TRUE after every update)
vars == <<pods, nsver, polver, cache, registry, reply>>

NoReply == TRUE

Truth(s, d) == <<s[1], pods[s].lv, pods[s].pv, d[1], pods[d].lv, pods[d].pv, nsver[s[1]], nsver[d[1]], polver>>

OwnerKeyOf(id, p) == <<IF KeyHasNamespace THEN id[1] ELSE "*", p.owner,
                       IF KeyHasLabels THEN p.lv ELSE 0, IF KeyHasPorts THEN p.pv ELSE 0>>
OwnerKey(id) == OwnerKeyOf(id, pods[id])
QueryKey(s, d) == <<OwnerKey(s), OwnerKey(d)>>
Cacheable(s, d) == pods[s].owner # "" /\ pods[d].owner # ""

Init == /\ pods = [id \in PodIds |-> Absent]
        /\ nsver = [n \in Nss |-> 0] /\ polver = 0
        /\ cache = <<>> /\ registry = <<>> /\ reply = NoReply

Restrict(f, S) == [x \in S |-> f[x]]

(* InsertObject(pod): insert or update in place *)
InsertPod(id, o, lv, pv) ==
  LET p == [present |-> TRUE, owner |-> o, lv |-> lv, pv |-> pv]
      k == OwnerKeyOf(id, p)
  IN /\ pods' = [pods EXCEPT ![id] = p]
     /\ registry' = IF ~FaithfulRegistry THEN registry
                    ELSE IF k \in DOMAIN registry THEN [registry EXCEPT ![k] = @ \cup {id}] ELSE registry @@ (k :> {id})
     /\ reply' = NoReply
     /\ UNCHANGED <<nsver, polver, cache>>

(* DeleteObject(pod); deleting an absent pod is a no-op *)
DeletePod(id) ==
  /\ reply' = NoReply /\ UNCHANGED <<nsver, polver>>
  /\ IF ~pods[id].present THEN UNCHANGED <<pods, cache, registry>>
     ELSE LET k == OwnerKey(id)
              r2 == IF k \in DOMAIN registry THEN [registry EXCEPT ![k] = @ \ {id}] ELSE registry
          IN \E last \in (IF FaithfulRegistry THEN {k \notin DOMAIN r2 \/ r2[k] = {}} ELSE BOOLEAN) :
             /\ pods' = [pods EXCEPT ![id] = Absent]
             /\ registry' = IF last THEN Restrict(r2, DOMAIN r2 \ {k}) ELSE r2
             /\ cache' = IF last THEN Restrict(cache, {q \in DOMAIN cache : q[1] # k /\ q[2] # k}) ELSE cache

Purge == cache' = <<>> /\ registry' = <<>>

(* insert / delete of a Namespace object: its labels change *)
UpdateNamespace(n) ==
  /\ nsver[n] < MaxVer
  /\ nsver' = [nsver EXCEPT ![n] = @ + 1] /\ reply' = NoReply /\ UNCHANGED <<pods, polver>>
  /\ IF PurgeOnNamespace THEN Purge ELSE UNCHANGED <<cache, registry>>

(* insert / delete of a NetworkPolicy, an AdminNetworkPolicy or the BaselineAdminNetworkPolicy *)
UpdatePolicy ==
  /\ polver < MaxVer
  /\ polver' = polver + 1 /\ reply' = NoReply /\ UNCHANGED <<pods, nsver>>
  /\ IF PurgeOnPolicy THEN Purge ELSE UNCHANGED <<cache, registry>>

(* CheckIfAllowed(s, d, ...) *)
Query(s, d) ==
  /\ pods[s].present /\ pods[d].present
  /\ UNCHANGED <<pods, nsver, polver, registry>>
  /\ IF s = d THEN /\ reply' = TRUE /\ UNCHANGED cache                                      \* always allowed: answered first
     ELSE IF Cacheable(s, d) /\ QueryKey(s, d) \in DOMAIN cache
     THEN /\ reply' = (cache[QueryKey(s, d)] = Truth(s, d)) /\ UNCHANGED cache               \* hit: the memoised verdict is the reply
     ELSE /\ reply' = TRUE                                                                  \* evaluate
          /\ cache' = IF Cacheable(s, d) THEN cache @@ (QueryKey(s, d) :> Truth(s, d)) ELSE cache

Next == \/ \E id \in PodIds, o \in Owners, lv \in LVs, pv \in PVs : InsertPod(id, o, lv, pv)
        \/ \E id \in PodIds : DeletePod(id)
        \/ \E n \in Nss : UpdateNamespace(n)
        \/ UpdatePolicy
        \/ \E s, d \in PodIds : Query(s, d)
Spec == Init /\ [][Next]_vars

---------------------------------------------------------------------------
CacheCoherent ==
  \A k \in DOMAIN cache :
    \A s, d \in PodIds :
      (pods[s].present /\ pods[d].present /\ s # d /\ Cacheable(s, d) /\ QueryKey(s, d) = k) => cache[k] = Truth(s, d)

ReplyCorrect == reply

(* bound for exhaustive runs: a counterexample needs one or two memoised verdicts *)
SmallCache == Cardinality(DOMAIN cache) <= MaxCached

(* the registry never forgets a current pod unless a purge emptied it: otherwise deletePod could keep verdicts alive *)
(* (not needed for coherence -- verdicts are functions of their key -- and not claimed; kept as documentation)       *)
TypeOK == /\ \A k \in DOMAIN registry : registry[k] \subseteq PodIds
          /\ nsver \in [Nss -> 0..MaxVer] /\ polver \in 0..MaxVer
=============================================================================
