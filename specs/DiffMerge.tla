------------------------------ MODULE DiffMerge ------------------------------
(***************************************************************************)
(* Design layer of C04: the ip-block part of the diff as pkg/netpol/diff/   *)
(* diff.go computes it, for one workload and one direction (the other end   *)
(* is an ip-block; groups of different workloads and directions never meet: *)
(* the group key starts with the workload and the two directions use two    *)
(* maps).                                                                   *)
(*                                                                         *)
(*   input    two connection lists: on each side the address space 0..N-1   *)
(*            cut into consecutive ranges (that side's ip-block peers),     *)
(*            each with a connection value or none (no entry)               *)
(*   Refine   DisjointPeerIPMap + RefineConnListByDisjointPeers: the common *)
(*            refinement of the two partitions; every fine range inherits   *)
(*            the value of the range that contains it                       *)
(*   DMap     diffMap: one connsPair per fine range (key "w;range"), with   *)
(*            firstConn / secondConn (nil = none)                           *)
(*   Groups   mergeIPblocks / addConnsPair: pairs grouped by the key        *)
(*            w ; String(conn1) ; String(conn2)   (nil prints as "")        *)
(*   Merge    mergeBySrcOrDstIPPeers: per group MergePeerIPList (maximal    *)
(*            runs of touching ranges); every run becomes an entry that     *)
(*            carries the connections of the group's FIRST member - which   *)
(*            member is first depends on Go's map iteration order, so the   *)
(*            representative is chosen nondeterministically                 *)
(*   Type     diffConnectionsLists: changed / unchanged / removed / added   *)
(*                                                                         *)
(* Checked by TLC for every input of the bound and every choice of          *)
(* representatives: PointwiseExact (the C04 statement restricted to this     *)
(* pipeline) and Maximal (no two touching entries carry the same pair).      *)
(* The constants switch single ingredients off; as built all are TRUE, and  *)
(* each FALSE variant is refuted (seeds C04, C04e are such variants).        *)
(***************************************************************************)
EXTENDS Integers, Sequences, FiniteSets, TLC

CONSTANTS N,                 \* addresses 0 .. N-1
          KeyHasBothConns,   \* the group key contains conn1 AND conn2
          KeySeparated,      \* ... with a separator between them ("A" + "" differs from "" + "A")   (seed C04)
          SecondFromOwn,     \* a merged entry's second connection is the representative's secondConn (seed C04e)
          MergeTouching      \* touching ranges of a group are merged (MergePeerIPList)

Vals == {"A", "B"}           \* printed forms of two different connection sets
None == "none"
Addr == 0 .. (N - 1)

VARIABLES b1, b2             \* the two sides: sequences of [lo, hi, c]
vars == <<b1, b2>>

Top(bs) == IF Len(bs) = 0 THEN 0 ELSE bs[Len(bs)].hi + 1
Complete == Top(b1) = N /\ Top(b2) = N

Init == b1 = <<>> /\ b2 = <<>>
Add1 == /\ Top(b1) < N
        /\ \E len \in 1 .. (N - Top(b1)), c \in Vals \cup {None} :
             b1' = Append(b1, [lo |-> Top(b1), hi |-> Top(b1) + len - 1, c |-> c])
        /\ UNCHANGED b2
Add2 == /\ Top(b1) = N /\ Top(b2) < N
        /\ \E len \in 1 .. (N - Top(b2)), c \in Vals \cup {None} :
             b2' = Append(b2, [lo |-> Top(b2), hi |-> Top(b2) + len - 1, c |-> c])
        /\ UNCHANGED b1
Next == Add1 \/ Add2
Spec == Init /\ [][Next]_vars

---------------------------------------------------------------------------
(* (total: an address no range covers has no connection - only a damaged trace can contain such a side) *)
ConnAt(bs, a) == IF \E i \in DOMAIN bs : bs[i].lo <= a /\ a <= bs[i].hi
                 THEN LET i == CHOOSE i \in DOMAIN bs : bs[i].lo <= a /\ a <= bs[i].hi IN bs[i].c
                 ELSE None

(* Refine *)
Cuts == {b1[i].lo : i \in DOMAIN b1} \cup {b2[i].lo : i \in DOMAIN b2}
NextCut(l) == IF \E c \in Cuts : c > l THEN CHOOSE c \in Cuts : c > l /\ \A d \in Cuts : d > l => c <= d ELSE N
Fine == {[lo |-> l, hi |-> NextCut(l) - 1] : l \in Cuts}

(* DMap: fine ranges that have an entry on at least one side *)
DMap == {e \in {[lo |-> f.lo, hi |-> f.hi, c1 |-> ConnAt(b1, f.lo), c2 |-> ConnAt(b2, f.lo)] : f \in Fine} : e.c1 # None \/ e.c2 # None}

(* Groups *)
Str(c) == IF c = None THEN "" ELSE c
Key(e) == IF KeyHasBothConns THEN Str(e.c1) \o (IF KeySeparated THEN ";" ELSE "") \o Str(e.c2) ELSE Str(e.c1)
Groups == {{e \in DMap : Key(e) = k} : k \in {Key(e) : e \in DMap}}

(* Merge *)
Cov(g) == UNION {e.lo .. e.hi : e \in g}
Runs(g) ==
  IF MergeTouching
  THEN {r \in Addr \X Addr : /\ r[1] <= r[2] /\ (r[1] .. r[2]) \subseteq Cov(g)
                            /\ (r[1] - 1) \notin Cov(g) /\ (r[2] + 1) \notin Cov(g)}
  ELSE {<<e.lo, e.hi>> : e \in g}
Type(c1, c2) == IF c1 # None /\ c2 # None THEN (IF c1 = c2 THEN "unchanged" ELSE "changed")
                ELSE IF c1 # None THEN "removed" ELSE "added"
Entry(r, rep) ==
  LET c1 == rep.c1
      c2 == IF SecondFromOwn \/ rep.c2 = None THEN rep.c2 ELSE (IF rep.c1 # None THEN rep.c1 ELSE rep.c2)
  IN [lo |-> r[1], hi |-> r[2], c1 |-> c1, c2 |-> c2, type |-> Type(c1, c2)]
(* a choice of representatives: a set with exactly one member of every group (the groups partition DMap) *)
RepChoices == {R \in SUBSET DMap : \A g \in Groups : Cardinality(R \cap g) = 1}
Out(R) == UNION {{Entry(r, CHOOSE e \in R : e \in g) : r \in Runs(g)} : g \in Groups}

---------------------------------------------------------------------------
(* C04 on this pipeline: every address is covered by exactly one entry of the right type carrying exactly c1 and c2 - or by   *)
(* none when neither side has a connection there                                                                             *)
PointwiseOKFor(x1, x2, out) ==
  \A a \in Addr :
    LET c1 == ConnAt(x1, a)
        c2 == ConnAt(x2, a)
        cover == {e \in out : e.lo <= a /\ a <= e.hi}
    IN IF c1 = None /\ c2 = None THEN cover = {}
       ELSE /\ Cardinality(cover) = 1
            /\ \A e \in cover : e.c1 = c1 /\ e.c2 = c2 /\ e.type = Type(c1, c2)
PointwiseOK(out) == PointwiseOKFor(b1, b2, out)
MaximalOK(out) == \A e, f \in out : (e.hi + 1 = f.lo) => (e.c1 # f.c1 \/ e.c2 # f.c2)

PointwiseExact == Complete => \A rep \in RepChoices : PointwiseOK(Out(rep))
Maximal == Complete => \A rep \in RepChoices : MaximalOK(Out(rep))
=============================================================================
