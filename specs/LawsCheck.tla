------------------------------ MODULE LawsCheck ------------------------------
(* TLC checks, on behaviours of Cluster.tla, that the metamorphic laws of Laws.tla hold for the      *)
(* reference semantics itself -- so a law rejected on the real tool cannot be a wrong law.           *)
EXTENDS Cluster, Laws

LawStep == RefLawViolations(world, world', label', args') = {}
LawsHold == [][LawStep]_vars
=============================================================================
