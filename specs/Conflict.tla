------------------------------- MODULE Conflict -------------------------------
(***************************************************************************)
(* C19: the space of conflicting inputs.  A case is a sequence of n        *)
(* AdminNetworkPolicy "slots" in document order with their priorities      *)
(* (an arrangement family applied to n distinct valid priorities) plus one *)
(* conflict of a given kind planted at document positions i < j (or at i   *)
(* only for single-resource conflicts), or no conflict at all (control     *)
(* group: the same input must then be analysed without error).             *)
(* TLC enumerates the whole finite space (every case is an initial state); *)
(* the harness materialises each case and runs list and diff on it;        *)
(* ConflictTrace accepts the recorded outcomes.                            *)
(***************************************************************************)
EXTENDS Integers, Sequences, FiniteSets, TLC, Json

CONSTANTS Sizes,        \* set of n (number of ANP slots)
          AllPairsUpTo  \* for n <= AllPairsUpTo every position pair i<j is enumerated, else a fixed sample

Kinds == {"samePriority", "priorityLow", "priorityHigh", "dupANPName", "dupNPName", "twoBANPs", "banpNotDefault", "ownerLabels", "none"}
Families == {"asc", "desc", "rot", "inter", "lcg"}

(* n distinct valid priorities 0 <= p <= 1000, in document order, per family *)
Base(n, k) == (k - 1) * (1000 \div (IF n > 1 THEN n - 1 ELSE 1))       \* ascending, includes 0 and (for n-1 | 1000) 1000
Lcg(n, k) == ((k * 7919 + 13) % n) + 1                                  \* a permutation of 1..n when gcd(7919, n) = 1
Perm(fam, n, k) ==
  CASE fam = "asc"   -> k
    [] fam = "desc"  -> n + 1 - k
    [] fam = "rot"   -> ((k + (n \div 3)) % n) + 1
    [] fam = "inter" -> IF k % 2 = 1 THEN (k + 1) \div 2 ELSE n + 1 - (k \div 2)
    [] fam = "lcg"   -> Lcg(n, k)
IsPerm(fam, n) == {Perm(fam, n, k) : k \in 1..n} = 1..n
Prios(fam, n) == [k \in 1..n |-> Base(n, Perm(fam, n, k))]

Positions(n) ==
  IF n <= AllPairsUpTo THEN {<<i, j>> \in (1..n) \X (1..n) : i < j}
  ELSE {<<i, j>> \in {1, 2, n \div 2, n - 1, n} \X {1, 2, n \div 2, (n \div 2) + 1, n - 1, n} : i < j}

(* "ownerLabels": besides the two pods whose labels differ (at positions i and j) the owner has `sib` further pods that agree  *)
(* with one of them; `devFirst` says whether the deviating pod is the one at position i (the siblings then follow at j) or the  *)
(* one at position j (the siblings precede it at i).  Other kinds: sib = 0.                                                    *)
(* admin-policy conflicts: the shape of the policies in conflict -- 0: each has a rule; 1: the one at position i has no rules at *)
(* all (a placeholder that reserves a priority or a name); 2: the one at j (single-resource conflicts: at i); 3: both; 4: the  *)
(* one at i has only an egress rule for nobody                                                                                *)
Shapes(k) == IF k \in {"samePriority", "priorityLow", "priorityHigh", "dupANPName", "twoBANPs", "banpNotDefault"} THEN 0..4 ELSE {0}
(* how the deviating pod's labels differ: another value of the same key, one more key with a value, one more key with an EMPTY value *)
Devs(k) == IF k = "ownerLabels" THEN {"value", "extraKey", "extraEmptyKey"} ELSE {"value"}
Sibs(k) == IF k = "ownerLabels" THEN 0..3 ELSE {0}
DevFirst(k) == IF k = "ownerLabels" THEN BOOLEAN ELSE {FALSE}
(* (one set constructor per kind, with that kind's own dimensions as bounds: the plain product of all dimensions exceeds     *)
(*  TLC's limit of a million elements per set at the thorough sizes)                                                         *)
CasesOfKind(k) ==
  {[kind |-> k, n |-> n, i |-> p[1], j |-> p[2], fam |-> f, prios |-> Prios(f, n), sib |-> sb, devFirst |-> df, dev |-> dv, shape |-> sh] :
      n \in Sizes, p \in UNION {Positions(m) : m \in Sizes}, f \in Families,
      sb \in Sibs(k), df \in DevFirst(k), dv \in Devs(k), sh \in Shapes(k)}
Cases ==
  UNION {CasesOfKind(k) : k \in Kinds \ {"none"}}
  \cup {[kind |-> "none", n |-> n, i |-> 1, j |-> 2, fam |-> f, prios |-> Prios(f, n), sib |-> 0, devFirst |-> FALSE, dev |-> "value", shape |-> 0] : n \in Sizes, f \in Families}
  \* a single AdminNetworkPolicy (the sort never calls its comparison)
  \cup {[kind |-> k, n |-> 1, i |-> 1, j |-> 1, fam |-> "asc", prios |-> <<0>>, sib |-> 0, devFirst |-> FALSE, dev |-> "value", shape |-> sh] : k \in {"priorityLow", "priorityHigh", "none"}, sh \in {0, 1}}

Valid(x) == /\ x.sib \in Sibs(x.kind) /\ x.devFirst \in DevFirst(x.kind) /\ x.dev \in Devs(x.kind) /\ x.shape \in Shapes(x.kind)
            /\ (x.n = 1 \/ (x.j <= x.n /\ <<x.i, x.j>> \in Positions(x.n) /\ IsPerm(x.fam, x.n)))

VARIABLE c
Init == c \in {x \in Cases : Valid(x)}
Next == UNCHANGED c
Spec == Init /\ [][Next]_c

Emit == PrintT("CASE " \o ToJson(c))

(* sanity of the arrangement functions: distinct valid priorities *)
PriosOK == /\ \A k \in 1..c.n : 0 <= c.prios[k] /\ c.prios[k] <= 1000
           /\ \A k1, k2 \in 1..c.n : k1 # k2 => c.prios[k1] # c.prios[k2]
=============================================================================
