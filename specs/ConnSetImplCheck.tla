-------------------------- MODULE ConnSetImplCheck --------------------------
(***************************************************************************)
(* TLC check of the design layer ConnSetImpl.tla against the reference     *)
(* ConnSetModel.tla: breadth-first over EVERY representation reachable by  *)
(* the exported methods from empty registers (no depth bound: the space is  *)
(* finite and is closed), for the catalogue of AddConnection arguments      *)
(* below.                                                                  *)
(*                                                                         *)
(*   StepRefines  every operation applied in every reachable state yields   *)
(*                the representation of the set ConnSetModel!Apply yields   *)
(*                (operands and bystanders unchanged)                       *)
(*   ObserversOK  IsEmpty, IsAllConnections, Equal, ContainedIn, Contains   *)
(*                computed on the representation say what the denotation    *)
(*                says - with exactly the tolerances the trace              *)
(*                specification grants the code (ConnSetTrace.tla)          *)
(*   RepOK        the representation invariant                              *)
(***************************************************************************)
EXTENDS ConnSetImpl

CONSTANTS UseProtos, UseNames

VARIABLES impl
vars == <<impl>>

(* AddConnection arguments: every range, optionally with one name, names alone *)
Ranges == {<<lo, hi>> : lo \in Ports, hi \in Ports} \cup {<<1, 0>>}
NameSeqs == {<<>>} \cup {<<n>> : n \in UseNames}
SpecCat == {PortSpec(pr, r[1], r[2], ns) : pr \in UseProtos, r \in {x \in Ranges : x[1] <= x[2] \/ x = <<1, 0>>}, ns \in NameSeqs}

IOps ==
  {[op |-> "Make", i |-> i, all |-> a] : i \in Regs, a \in BOOLEAN}
  \cup {[op |-> "Add", i |-> i, spec |-> s] : i \in Regs, s \in SpecCat}
  \cup {[op |-> x[1], i |-> x[2], j |-> x[3]] : x \in {"Union", "Subtract", "Intersect"} \X Regs \X Regs}
  \cup {[op |-> "Copy", i |-> x[1], j |-> x[2]] : x \in {y \in Regs \X Regs : y[1] # y[2]}}

Init == impl = [i \in Regs |-> CEmpty]
Next == \E o \in IOps : impl' = IApply(impl, o)
Spec == Init /\ [][Next]_vars

RepOK == \A i \in Regs : RepInv(impl[i])

StepRefines ==
  \A o \in IOps :
    LET nxt == IApply(impl, o)
        exp == Apply([i \in Regs |-> Den(impl[i])], o)
        want(i) == IF o.op = "Intersect" /\ i = o.i THEN [pts |-> exp[i].pts, names |-> Den(nxt[i]).names] ELSE exp[i]
    IN \A i \in Regs : Norm(Den(nxt[i])) = Norm(want(i))

ObserversOK ==
  \A i, j \in Regs :
    LET c == impl[i]  o == impl[j]  dc == Den(c)  do == Den(o) IN
    /\ CIsEmpty(c) = SIsEmpty(dc)
    /\ c.all => SIsAll(dc)
    /\ (RNoExcl(c) /\ SIsAll(dc)) => c.all
    /\ CEqual(c, o) => SEqual(dc, do)
    /\ (RNameFree(c) /\ RNameFree(o) /\ SEqual(dc, do)) => CEqual(c, o)
    /\ CContainedIn(c, o) => SContained(dc, do)
    /\ (RNoExcl(c) /\ RNoExcl(o) /\ SContained(dc, do)) => CContainedIn(c, o)
    /\ \A pr \in Protos, n \in Ports : CContains(c, pr, n) = (<<pr, n>> \in dc.pts)
=============================================================================
