-------------------------------- MODULE Engine --------------------------------
(***************************************************************************)
(* Machine M2 as a generator of update/query histories for                 *)
(* eval.PolicyEngine (C15).  A history is a sequence of operations drawn   *)
(* from a small catalogue of namespaces, pods (with and without owners),   *)
(* NetworkPolicies, ANPs and BANPs, interleaved with "Sweep" (query every  *)
(* endpoint pair x protocol x port).  Every history starts with a fixed    *)
(* prefix that populates the engine, so that even short histories hit a    *)
(* warm cache.  Sim = TRUE: random walk (tlc -simulate); Sim = FALSE: all  *)
(* histories of MaxSteps operations (BFS; the history is part of the       *)
(* state, so every path is a distinct state).                              *)
(* `cur` is the abstract engine (EngineModel) -- kept to state sanity      *)
(* invariants of the model itself and to prune no-op branches.             *)
(***************************************************************************)
EXTENDS EngineModel, Json

CONSTANTS Sim, MaxSteps, Small, Tiny   \* Small / Tiny: reduced catalogues for exhaustive runs

VARIABLES cur, hist, step
vars == <<cur, hist, step>>

L1(k, v) == (k :> v)
NoL == <<>>
ESel == [ml |-> NoL, ex |-> <<>>]
MSel(k, v) == [ml |-> L1(k, v), ex |-> <<>>]

Ns(n, ls) == [name |-> n, labels |-> ls]
Pod(ns, n, o, ls, ps) == [ns |-> ns, name |-> n, owner |-> o, ownerKind |-> "ReplicaSet", labels |-> ls, ports |-> ps]
CP(n, pr, p) == [name |-> n, proto |-> pr, port |-> p]

PA1 == Pod("ns1", "a-x1", "a", L1("app", "a"), <<CP("http", "TCP", 2)>>)
PA2 == Pod("ns1", "a-x2", "a", L1("app", "a"), <<CP("http", "TCP", 2)>>)
PB  == Pod("ns2", "b-x1", "b", L1("app", "b"), <<>>)
PBv == Pod("ns2", "b-x1", "b", L1("app", "a"), <<>>)          \* same pod, relabelled
PC  == Pod("ns2", "c", "", L1("app", "a"), <<CP("http", "UDP", 2)>>)
PA1p == Pod("ns1", "a-x1", "a", L1("app", "a"), <<CP("http", "UDP", 2)>>)   \* same pod, same labels, its named port re-declared
PD   == Pod("ns2", "a-x1", "a", L1("app", "a"), <<CP("http", "TCP", 2)>>)    \* a twin of PA1 (same owner name, labels, ports) in another namespace
PA1n == Pod("ns1", "a-x1", "a", L1("app", "a"), <<CP("http", "TCP", 1)>>)   \* same pod, same labels, same port name and protocol: RENUMBERED
PA3  == Pod("ns1", "a-x3", "a", L1("app", "a"), <<CP("web", "TCP", 2)>>)    \* a sibling of the same owner and labels whose template differs

Blk(lo, hi) == [all |-> FALSE, lo |-> lo, hi |-> hi]
PodPeer(nsNil, ns, podNil, pod) ==
  [kind |-> "pod", nsNil |-> nsNil, nsSel |-> ns, podNil |-> podNil, podSel |-> pod, cidr |-> Blk(1, 0), excepts |-> <<>>]
IPPeer(c) == [kind |-> "ip", nsNil |-> TRUE, nsSel |-> ESel, podNil |-> TRUE, podSel |-> ESel, cidr |-> c, excepts |-> <<>>]
Port(proto, kind, lo, hi, name) ==
  [protoNil |-> FALSE, proto |-> proto, kind |-> kind, num |-> lo, name |-> name, endNil |-> FALSE, end |-> hi]

NP(ns, n, sel, tyNil, ty, ing, eg) ==
  [ns |-> ns, name |-> n, podSel |-> sel, typesNil |-> tyNil, types |-> ty, ingress |-> ing, egress |-> eg]

NP1  == NP("ns1", "np1", MSel("app", "a"), TRUE, <<>>,
           <<[peers |-> <<PodPeer(FALSE, MSel("team", "x"), TRUE, ESel)>>, ports |-> <<Port("TCP", "num", 2, 2, "")>>]>>, <<>>)
NP1v == NP("ns1", "np1", ESel, TRUE, <<>>, <<>>, <<>>)                       \* same name, other content
NP2  == NP("ns2", "np2", ESel, FALSE, <<"Egress">>, <<>>,
           <<[peers |-> <<IPPeer(Blk(0, 0)), PodPeer(TRUE, ESel, FALSE, MSel("app", "a"))>>,
              ports |-> <<Port("TCP", "num", 1, 2, "")>>]>>)
NP3  == NP("ns1", "np3", MSel("app", "a"), FALSE, <<"Ingress", "Egress">>,
           <<[peers |-> <<>>, ports |-> <<Port("TCP", "name", 0, 0, "http")>>]>>,
           <<[peers |-> <<PodPeer(FALSE, ESel, TRUE, ESel)>>, ports |-> <<Port("UDP", "none", 0, 0, "")>>]>>)

NsSubj(s) == [kind |-> "namespaces", nsSel |-> s, podSel |-> ESel]
PodSubj(n, p) == [kind |-> "pods", nsSel |-> n, podSel |-> p]
AP(kind, proto, lo, hi, name) == [kind |-> kind, proto |-> proto, lo |-> lo, hi |-> hi, name |-> name]
AR(n, act, peers, pNil, ports) == [name |-> n, action |-> act, peers |-> peers, portsNil |-> pNil, ports |-> ports]
ANP(n, prio, subj, ing, eg) == [name |-> n, priority |-> prio, subject |-> subj, ingress |-> ing, egress |-> eg]

ANPA  == ANP("anp-a", 10, NsSubj(ESel),
             <<AR("d", "Deny", <<NsSubj(MSel("team", "y"))>>, FALSE, <<AP("range", "TCP", 2, 3, "")>>)>>, <<>>)
ANPAv == ANP("anp-a", 20, NsSubj(ESel), <<AR("d", "Deny", <<NsSubj(ESel)>>, TRUE, <<>>)>>, <<>>)
ANPB  == ANP("anp-b", 5, PodSubj(ESel, MSel("app", "a")),
             <<AR("a", "Allow", <<NsSubj(ESel)>>, FALSE, <<AP("number", "TCP", 2, 2, "")>>)>>,
             <<AR("p", "Pass", <<NsSubj(ESel)>>, TRUE, <<>>)>>)
ANPC  == ANP("anp-c", 7, NsSubj(MSel("team", "x")),
             <<>>, <<AR("d", "Deny", <<PodSubj(ESel, MSel("app", "b"))>>, FALSE, <<AP("range", "UDP", 1, 3, ""), AP("named", "TCP", 0, 0, "http")>>)>>)

BANP(n, subj, ing, eg) == [nil |-> FALSE, name |-> n, subject |-> subj, ingress |-> ing, egress |-> eg]
BANPD == BANP("default", NsSubj(ESel),
              <<AR("d", "Deny", <<NsSubj(ESel)>>, FALSE, <<AP("range", "UDP", 1, 3, "")>>)>>,
              <<AR("a", "Allow", <<NsSubj(MSel("team", "x"))>>, TRUE, <<>>), AR("d", "Deny", <<NsSubj(ESel)>>, FALSE, <<AP("range", "SCTP", 1, 2, "")>>)>>)
BANPX == BANP("other", NsSubj(ESel), <<AR("d", "Deny", <<NsSubj(ESel)>>, TRUE, <<>>)>>, <<>>)

O(op) == [op |-> op]
(* SetResources calls: a relabelled namespace + an updated pod + a sibling; a policy whose name is taken (error after the       *)
(* namespace was inserted, the pod is not); a fresh policy + a renumbered pod                                                *)
SR1 == [op |-> "SetRes", nss |-> <<Ns("ns1", L1("team", "y"))>>, nps |-> <<>>, pods |-> <<PBv, PA3>>]
SR2 == [op |-> "SetRes", nss |-> <<Ns("ns2", NoL)>>, nps |-> <<NP2>>, pods |-> <<PA1p>>]
SR3 == [op |-> "SetRes", nss |-> <<>>, nps |-> <<NP1v>>, pods |-> <<PA1n>>]
OpsFull ==
  { [op |-> "InsNs", nso |-> Ns("ns1", L1("team", "x"))], [op |-> "InsNs", nso |-> Ns("ns1", L1("team", "y"))],
    [op |-> "InsNs", nso |-> Ns("ns2", L1("team", "x"))], [op |-> "InsNs", nso |-> Ns("ns2", NoL)],
    [op |-> "DelNs", name |-> "ns1"], [op |-> "DelNs", name |-> "ns2"],
    [op |-> "InsPod", pod |-> PA1], [op |-> "InsPod", pod |-> PA2], [op |-> "InsPod", pod |-> PB],
    [op |-> "InsPod", pod |-> PBv], [op |-> "InsPod", pod |-> PC], [op |-> "InsPod", pod |-> PA1p], [op |-> "InsPod", pod |-> PA1n], [op |-> "InsPod", pod |-> PA3],
    [op |-> "DelPod", ns |-> "ns1", name |-> "a-x3"], [op |-> "InsPod", pod |-> PD], [op |-> "DelPod", ns |-> "ns2", name |-> "a-x1"],
    [op |-> "DelPod", ns |-> "ns1", name |-> "a-x1"], [op |-> "DelPod", ns |-> "ns1", name |-> "a-x2"],
    [op |-> "DelPod", ns |-> "ns2", name |-> "b-x1"], [op |-> "DelPod", ns |-> "ns2", name |-> "c"],
    [op |-> "DelPod", ns |-> "ns2", name |-> "nosuch"],
    [op |-> "InsNP", np |-> NP1], [op |-> "InsNP", np |-> NP1v], [op |-> "InsNP", np |-> NP2], [op |-> "InsNP", np |-> NP3],
    [op |-> "DelNP", ns |-> "ns1", name |-> "np1"], [op |-> "DelNP", ns |-> "ns2", name |-> "np2"],
    [op |-> "DelNP", ns |-> "ns1", name |-> "np3"], [op |-> "DelNP", ns |-> "ns3", name |-> "nosuch"],
    [op |-> "InsANP", anp |-> ANPA], [op |-> "InsANP", anp |-> ANPAv], [op |-> "InsANP", anp |-> ANPB], [op |-> "InsANP", anp |-> ANPC],
    [op |-> "DelANP", name |-> "anp-a"], [op |-> "DelANP", name |-> "anp-b"], [op |-> "DelANP", name |-> "anp-c"],
    [op |-> "InsBANP", banp |-> BANPD], [op |-> "InsBANP", banp |-> BANPX],
    [op |-> "DelBANP", name |-> "default"], [op |-> "DelBANP", name |-> "other"],
    SR1, SR2, SR3, O("Clear"),
    O("Sweep") }

(* the reduced catalogue contains, for every kind, a delete and an insert of the same key with other content, *)
(* so that the exhaustive short histories include every delete / re-create pattern                           *)
OpsSmall ==
  { [op |-> "InsNs", nso |-> Ns("ns1", L1("team", "y"))], [op |-> "DelNs", name |-> "ns1"],
    [op |-> "InsNs", nso |-> Ns("ns2", L1("team", "x"))], [op |-> "DelNs", name |-> "ns2"],
    [op |-> "InsPod", pod |-> PBv], [op |-> "DelPod", ns |-> "ns2", name |-> "b-x1"], [op |-> "InsPod", pod |-> PA1p], [op |-> "InsPod", pod |-> PA1n], [op |-> "InsPod", pod |-> PA3],
    [op |-> "DelPod", ns |-> "ns1", name |-> "a-x1"], 
    [op |-> "DelNP", ns |-> "ns1", name |-> "np3"], [op |-> "InsNP", np |-> NP1v], [op |-> "DelNP", ns |-> "ns1", name |-> "np1"],
    [op |-> "InsANP", anp |-> ANPB], [op |-> "InsANP", anp |-> ANPAv], [op |-> "DelANP", name |-> "anp-a"],
    [op |-> "InsBANP", banp |-> BANPD], [op |-> "DelBANP", name |-> "default"], SR2, O("Sweep") }

(* a still smaller catalogue for one more step of exhaustive depth (thorough tier): one invalidating update per kind *)
OpsTiny ==
  { [op |-> "InsNs", nso |-> Ns("ns1", L1("team", "y"))], [op |-> "DelNs", name |-> "ns1"],
    [op |-> "InsPod", pod |-> PBv], [op |-> "DelPod", ns |-> "ns2", name |-> "b-x1"], [op |-> "InsPod", pod |-> PA1p], [op |-> "InsPod", pod |-> PA1n], [op |-> "InsPod", pod |-> PA3],
    [op |-> "DelNP", ns |-> "ns1", name |-> "np3"], [op |-> "InsNP", np |-> NP1v],
    [op |-> "InsANP", anp |-> ANPB], [op |-> "DelANP", name |-> "anp-a"],
    [op |-> "InsBANP", banp |-> BANPD], O("Sweep") }

Ops == IF Tiny THEN OpsTiny ELSE IF Small THEN OpsSmall ELSE OpsFull

(* the fixed prefix: a populated engine with a warm cache *)
Prefix == << [op |-> "InsNs", nso |-> Ns("ns1", L1("team", "x"))], [op |-> "InsNs", nso |-> Ns("ns2", L1("team", "y"))],
             [op |-> "InsPod", pod |-> PA1], [op |-> "InsPod", pod |-> PA2], [op |-> "InsPod", pod |-> PB], [op |-> "InsPod", pod |-> PC], [op |-> "InsPod", pod |-> PD],
             [op |-> "InsNP", np |-> NP1], [op |-> "InsNP", np |-> NP2], [op |-> "InsNP", np |-> NP3], [op |-> "InsANP", anp |-> ANPA], O("Sweep") >>

RECURSIVE ApplyAll(_, _)
ApplyAll(c, ops) == IF ops = <<>> THEN c
                    ELSE ApplyAll(IF Head(ops).op = "Sweep" THEN c ELSE Apply(c, Head(ops)).cur, Tail(ops))

Init == /\ cur = ApplyAll(EmptyEngine(3, <<1, 2>>, 2), Prefix)
        /\ hist = Prefix
        /\ step = 0

Pick(S) == IF Sim /\ S # {} THEN {RandomElement(S)} ELSE S

Do == /\ step < MaxSteps
      /\ \E o \in Pick(Ops) :
           /\ cur' = IF o.op = "Sweep" THEN cur ELSE Apply(cur, o).cur
           /\ hist' = Append(hist, o)
           /\ step' = step + 1

Finish == /\ step = MaxSteps
          /\ PrintT("HISTORY " \o ToJson(hist))
          /\ step' = step + 1 /\ UNCHANGED <<cur, hist>>

Next == Do \/ Finish
Spec == Init /\ [][Next]_vars

---------------------------------------------------------------------------
(* sanity invariants of the abstract model (TLC-checked on every state)    *)
UniqueKeys ==
  /\ \A i, j \in DOMAIN cur.namespaces : i # j => cur.namespaces[i].name # cur.namespaces[j].name
  /\ \A i, j \in DOMAIN cur.workloads : i # j => <<cur.workloads[i].ns, cur.workloads[i].name>> # <<cur.workloads[j].ns, cur.workloads[j].name>>
  /\ \A i, j \in DOMAIN cur.netpols : i # j => <<cur.netpols[i].ns, cur.netpols[i].name>> # <<cur.netpols[j].ns, cur.netpols[j].name>>
  /\ \A i, j \in DOMAIN cur.anps : i # j => cur.anps[i].name # cur.anps[j].name
(* the engine never holds two ANPs with equal priority in this catalogue unless names collide *)
DeleteAbsentIsNoOp ==
  /\ Apply(cur, [op |-> "DelPod", ns |-> "nsz", name |-> "zz"]).cur = cur
  /\ Apply(cur, [op |-> "DelNP", ns |-> "nsz", name |-> "zz"]).cur = cur
  /\ Apply(cur, [op |-> "DelANP", name |-> "zz"]).cur = cur
  /\ Apply(cur, [op |-> "DelNs", name |-> "zz"]).cur = cur
  /\ Apply(cur, [op |-> "DelBANP", name |-> "zz"]).cur = cur
=============================================================================
