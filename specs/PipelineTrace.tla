---------------------------- MODULE PipelineTrace ----------------------------
(***************************************************************************)
(* C13: acceptance of the recorded outcome of list / diff on one scenario  *)
(* of Pipeline.tla (a directory of good documents with injected irrelevant *)
(* and malformed items), relative to the baseline run on the good          *)
(* documents alone:                                                        *)
(*  1. the injected items never change the computed connections;           *)
(*  2. every unreadable / malformed item appears in Errors() as severe     *)
(*     (for list also attributable to its file);                           *)
(*  3. with stop-on-error a severe error yields no connections (an empty   *)
(*     result or an error);                                                *)
(*  4. a fatal error yields an error and no result;                        *)
(* and the run follows the outcome predicted by the Pipeline machine       *)
(* (empty result and error being interchangeable where clause 3 allows     *)
(* both).                                                                  *)
(***************************************************************************)
EXTENDS Integers, Sequences, FiniteSets, TLC, Json, IOUtils

TraceFile == IF "TRACE" \in DOMAIN IOEnv THEN IOEnv.TRACE ELSE "trace.ndjson"
Trace == ndJsonDeserialize(TraceFile)

VARIABLES l, mism
vars == <<l, mism>>
Init == l = 1 /\ mism = 0

SS(s) == {s[i] : i \in DOMAIN s}

RunMismatches(ev) ==
  LET s == ev.scn
      tag == <<s.cmd, s.stop, s.other, [i \in DOMAIN s.files |-> <<s.files[i].cls, s.files[i].docs>>]>>
      sevEntries == {i \in DOMAIN ev.errors : ev.errors[i].severe /\ ev.errors[i].class \in {"malformedYaml", "readingFile"}}
      fatalEntry == \E i \in DOMAIN ev.errors : ev.errors[i].fatal
      otherJunk == s.cmd # "list" /\ s.other = "junk"
      nBad == Cardinality({<<f, p>> \in (DOMAIN s.files) \X (1..8) : p \in DOMAIN s.files[f].docs /\ s.files[f].docs[p] \in {"badSchema", "nokindDoc"}})
              + Cardinality({f \in DOMAIN s.files : s.files[f].cls \in {"broken", "nokind"}})
              + (IF otherJunk THEN 2 ELSE 0)          \* the other directory of a diff carries two unreadable items of its own
      stopSevere == s.stop /\ (Len(s.severeFiles) > 0 \/ otherJunk)
      attributed == UNION {SS(ev.errors[i].files) : i \in sevEntries}
  IN (IF ev.outcome = "panic" THEN {<<"panic", tag, ev.msg>>} ELSE {})
     \* 1
     \cup (IF ev.outcome = "result" /\ SS(ev.rows) # SS(ev.baseRows)
           THEN {<<"C13-injected-documents-skew-the-result", tag, "missing", SS(ev.baseRows) \ SS(ev.rows), "extra", SS(ev.rows) \ SS(ev.baseRows)>>} ELSE {})
     \cup (IF s.predicted = "result" /\ ev.outcome # "result"
           THEN {<<"C13-result-lost", tag, ev.outcome, ev.msg>>} ELSE {})
     \* 2
     \cup (IF ~s.stop /\ Cardinality(sevEntries) < nBad
           THEN {<<"C13-malformed-item-not-reported-as-severe", tag, "items", nBad, "severe-entries", Cardinality(sevEntries)>>} ELSE {})
     \cup (IF ~s.stop /\ s.cmd = "list" /\ ~(SS(s.severeFiles) \subseteq attributed)
           THEN {<<"C13-severe-entry-not-attributable-to-its-file", tag, SS(s.severeFiles) \ attributed>>} ELSE {})
     \* 3
     \cup (IF stopSevere /\ ev.outcome \notin {"empty", "error"}
           THEN {<<"C13-stop-on-error-yields-connections", tag, ev.outcome>>} ELSE {})
     \* 4
     \cup (IF fatalEntry /\ ev.outcome # "error" THEN {<<"C13-fatal-entry-without-error", tag, ev.outcome>>} ELSE {})
     \cup (IF s.fatal /\ ~stopSevere /\ ~(ev.outcome = "error" /\ fatalEntry)
           THEN {<<"C13-fatal-conflict-not-an-error", tag, ev.outcome, fatalEntry>>} ELSE {})
     \* conformance with the Pipeline machine
     \cup (IF ev.outcome \in {"result", "empty", "error"} /\ ev.outcome # s.predicted
              /\ ~(stopSevere /\ {ev.outcome, s.predicted} \subseteq {"empty", "error"})
           THEN {<<"C13-deviates-from-pipeline-model", tag, "predicted", s.predicted, "observed", ev.outcome, ev.msg>>} ELSE {})

TracePipe ==
  /\ l <= Len(Trace) /\ Trace[l].ev = "Pipe" /\ l' = l + 1
  /\ LET ms == RunMismatches(Trace[l])
     IN /\ \A m \in ms : PrintT("MISMATCH " \o ToJson([line |-> l, wid |-> Trace[l].id, m |-> m]))
        /\ mism' = mism + Cardinality(ms)

Spec == Init /\ [][TracePipe]_vars
TraceAccepted == TLCGet("stats").diameter - 1 = Len(Trace)
=============================================================================
