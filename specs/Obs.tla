-------------------------------- MODULE Obs --------------------------------
(***************************************************************************)
(* Acceptance predicates relating an *observation* of the real tool (as    *)
(* abstracted by the harness, module run/ of /verif/harness) to the        *)
(* reference semantics of module Ref.  Each operator returns the SET of    *)
(* mismatches (tuples starting with a kind string); the empty set means    *)
(* the observation is accepted.  Used by the trace specifications.         *)
(***************************************************************************)
EXTENDS Ref

---------------------------------------------------------------------------
(* helpers on observed peers / entries                                     *)
WKeys(w) == {WKey(w.workloads[i]) : i \in WIdx(w)}
DistinctKeys(w) == \A i, j \in WIdx(w) : i # j => WKey(w.workloads[i]) # WKey(w.workloads[j])

PeerCovers(w, po, p) ==
  IF IsW(p) THEN po.t = "w" /\ po.key = WKey(WL(w, p))
  ELSE po.t = "ip" /\ p[2] \in Range(po.cls)

EntryPoints(w, e) ==
  IF e.all THEN AllPoints(w)
  ELSE UNION {{pr} \X Range(e.pp[pr]) : pr \in Protos}

PeerDesc(w, p) == IF IsW(p) THEN WKey(WL(w, p)) ELSE "addr:" \o ToString(p[2])

(* 32-bit addresses travel as <<high16, low16>>                            *)
ALt(a, b)  == a[1] < b[1] \/ (a[1] = b[1] /\ a[2] < b[2])
ASucc(a)   == IF a[2] = 65535 THEN <<a[1] + 1, 0>> ELSE <<a[1], a[2] + 1>>
AMin == <<0, 0>>
AMax == <<65535, 65535>>

---------------------------------------------------------------------------
(* C05: the report is a well-formed canonical relation.  Checked on the    *)
(* raw (un-abstracted) ranges the tool returned.                           *)
RangesCanonical(rs) ==
  /\ \A i \in DOMAIN rs : 1 <= rs[i][1] /\ rs[i][1] <= rs[i][2] /\ rs[i][2] <= 65535
  /\ \A i \in DOMAIN rs : i < Len(rs) => rs[i][2] + 1 < rs[i + 1][1]

FullRange(rs) == Len(rs) = 1 /\ rs[1][1] = 1 /\ rs[1][2] = 65535

EntryWellFormed(e) ==
  /\ e.aligned
  /\ Range(e.protos) \subseteq Protos
  /\ \A pr \in Protos : RangesCanonical(e.raw[pr])
  /\ \A pr \in Range(e.protos) : Len(e.raw[pr]) > 0           \* no protocol listed with no ports
  /\ e.all => Len(e.protos) = 0                                 \* 'all' is a flag, never spelled out
  /\ ~e.all => Len(e.protos) > 0                                \* never an empty connection
  /\ ~e.all => ~(\A pr \in Protos : FullRange(e.raw[pr]))       \* three full ranges must be flagged 'all'

IPPeersWellFormed(peers) ==
  LET ips == {i \in DOMAIN peers : peers[i].t = "ip"}
  IN /\ \A i \in ips : peers[i].single /\ peers[i].aligned /\ ~ALt(peers[i].hi, peers[i].lo)
     /\ \A i, j \in ips : i # j => ALt(peers[i].hi, peers[j].lo) \/ ALt(peers[j].hi, peers[i].lo)
     /\ ips # {} => /\ \E i \in ips : peers[i].lo = AMin
                    /\ \E i \in ips : peers[i].hi = AMax
                    /\ \A i \in ips : peers[i].hi # AMax => \E j \in ips : peers[j].lo = ASucc(peers[i].hi)

WellFormedMismatches(obs) ==
  LET es == obs.conns
      bad  == {i \in DOMAIN es : ~EntryWellFormed(es[i])}
      dup  == {<<i, j>> \in (DOMAIN es) \X (DOMAIN es) :
                 i < j /\ es[i].src.key = es[j].src.key /\ es[i].dst.key = es[j].dst.key}
      self == {i \in DOMAIN es : es[i].src.key = es[i].dst.key}
      ipip == {i \in DOMAIN es : es[i].src.t = "ip" /\ es[i].dst.t = "ip"}
      ipsInConns == {i \in DOMAIN es : (es[i].src.t = "ip" /\ ~(es[i].src.single /\ es[i].src.aligned))
                                    \/ (es[i].dst.t = "ip" /\ ~(es[i].dst.single /\ es[i].dst.aligned))}
  IN {<<"C05-entry-not-canonical", es[i].src.key, es[i].dst.key, es[i].raw, es[i].all>> : i \in bad}
     \cup {<<"C05-duplicate-pair", es[p[1]].src.key, es[p[1]].dst.key>> : p \in dup}
     \cup {<<"C05-self-pair", es[i].src.key>> : i \in self}
     \cup {<<"C05-ip-ip-pair", es[i].src.key, es[i].dst.key>> : i \in ipip}
     \cup {<<"C05-ip-peer-not-a-single-aligned-range", es[i].src.key, es[i].dst.key>> : i \in ipsInConns}
     \cup (IF IPPeersWellFormed(obs.peers) THEN {} ELSE {<<"C05-ip-peers-not-a-partition">>})

---------------------------------------------------------------------------
(* C01 / C02: point-wise equality of the report with the reference.        *)
(* ingOK: whether {ingress-controller} entries are legitimate (C10 checks  *)
(* their content separately).                                              *)
SemanticMismatches(w, obs, pairs) ==
  LET es == obs.conns
      cover(p, q) == {i \in DOMAIN es : PeerCovers(w, es[i].src, p) /\ PeerCovers(w, es[i].dst, q)}
      observed(p, q) == UNION {EntryPoints(w, es[i]) : i \in cover(p, q)}
      wrong == {pq \in pairs : observed(pq[1], pq[2]) # Conn(w, pq[1], pq[2])}
      unknown == {i \in DOMAIN es :
                    \/ (es[i].src.t = "w" /\ es[i].src.key \notin WKeys(w))
                    \/ (es[i].dst.t = "w" /\ es[i].dst.key \notin WKeys(w))
                    \/ es[i].src.t = "other" \/ es[i].dst.t = "other"}
  IN {<<"conn", PeerDesc(w, pq[1]), PeerDesc(w, pq[2]),
        "expected", Conn(w, pq[1], pq[2]), "observed", observed(pq[1], pq[2])>> : pq \in wrong}
     \cup {<<"unknown-peer", es[i].src.key, es[i].dst.key>> : i \in unknown}

(* C17 (state part): exactly one peer per workload, none missing/merged.   *)
PeerSetMismatches(w, obs) ==
  LET got == {obs.peers[i].key : i \in {i \in DOMAIN obs.peers : obs.peers[i].t # "ip"}}
      multi == {k \in got : Cardinality({i \in DOMAIN obs.peers : obs.peers[i].key = k}) > 1}
  IN (IF got = WKeys(w) THEN {} ELSE {<<"C17-peer-set", "expected", WKeys(w), "observed", got>>})
     \cup {<<"C17-duplicate-peer", k>> : k \in multi}

(* C17, "distinct workloads never shadow each other": two workloads that share namespace and name (a bare Pod x next to a     *)
(* Deployment x) are two peers, and what is reported between them is what the semantics give for two different workloads       *)
SameNameMismatches(w, obs) ==
  LET twins == {pq \in ReportPairs(w) : IsW(pq[1]) /\ IsW(pq[2]) /\ pq[1] # pq[2]
                                        /\ WL(w, pq[1]).ns = WL(w, pq[2]).ns /\ WL(w, pq[1]).name = WL(w, pq[2]).name}
      es == obs.conns
      observed(p, q) == UNION {EntryPoints(w, es[i]) : i \in {i \in DOMAIN es : PeerCovers(w, es[i].src, p) /\ PeerCovers(w, es[i].dst, q)}}
      bad == {pq \in twins : observed(pq[1], pq[2]) # Conn(w, pq[1], pq[2])}
  IN IF ~DistinctKeys(w) THEN {}
     ELSE {<<"C17-same-name-workloads-shadow-each-other", WKey(WL(w, pq[1])), WKey(WL(w, pq[2])),
             "expected", Conn(w, pq[1], pq[2]), "observed", observed(pq[1], pq[2])>> : pq \in bad}

(* The whole acceptance of a plain `list` run (no focus, no exposure).     *)
ListMismatches(w, obs) ==
  CASE obs.outcome = "panic" -> {<<"panic", obs.errMsg>>}
    [] obs.outcome = "error" ->
         IF obs.errClass = "namedPortOnIP" /\ MayFailNamedPortOnIP(w) THEN {}
         ELSE {<<"unexpected-error", obs.errClass, obs.errMsg>>}
    [] obs.outcome = "ok" ->
         IF Len(w.workloads) = 0
         THEN (IF Len(obs.conns) = 0 THEN {} ELSE {<<"conns-without-workloads">>})
         ELSE WellFormedMismatches(obs)
              \cup SemanticMismatches(w, obs, ReportPairs(w))
              \cup PeerSetMismatches(w, obs)
              \cup SameNameMismatches(w, obs)

---------------------------------------------------------------------------
(* C16: --focusworkload is a pure filter of the unfocused report of the    *)
(* same input.  W matches a peer by name or by namespace/name (also the    *)
(* {ingress-controller} peer).                                             *)
FocusMatch(po, W) == po.t \in {"w", "ing"} /\ (po.name = W \/ (po.ns \o "/" \o po.name) = W)
EntrySig(e) == <<e.src.key, e.dst.key, e.all, e.pp>>
FocusMismatches(w, full, W, fobs) ==
  CASE fobs.outcome = "panic" -> {<<"panic", fobs.errMsg>>}
    [] fobs.outcome = "error" -> {<<"C16-focus-returned-an-error", W, fobs.errMsg>>}
    [] fobs.outcome = "ok" ->
      LET want == {EntrySig(full.conns[i]) : i \in {i \in DOMAIN full.conns :
                      FocusMatch(full.conns[i].src, W) \/ FocusMatch(full.conns[i].dst, W)}}
          got  == {EntrySig(fobs.conns[i]) : i \in DOMAIN fobs.conns}
          known == \E i \in DOMAIN full.peers : FocusMatch(full.peers[i], W)
          \* with Ingress / Route objects in the input the ingress controller is a (pseudo) workload of the input,
          \* possibly one without connections -- like any other workload without connections it needs no warning
          ingKnown == W = "ingress-controller" /\ (Len(w.ingresses) + Len(w.routes) > 0)
          \* an input without any workload already carries its own "no workload resources" entry
          warned == \E i \in DOMAIN fobs.errors : fobs.errors[i].class \in {"focusMissing", "focusNoIngress", "noWorkloads"}
          \* focusing must not add severe / fatal entries to those of the unfocused run
          sev(o) == {o.errors[i].class : i \in {i \in DOMAIN o.errors : o.errors[i].severe \/ o.errors[i].fatal}}
          bad == ~(sev(fobs) \subseteq sev(full))
      IN (IF got = want /\ Cardinality(got) = Len(fobs.conns) THEN {}
          ELSE {<<"C16-not-a-filter", W, "missing", want \ got, "extra", got \ want>>})
         \cup (IF ~known /\ ~ingKnown /\ ~warned THEN {<<"C16-no-warning-for-unknown-workload", W>>} ELSE {})
         \cup (IF bad THEN {<<"C16-severe-or-fatal-entry", W>>} ELSE {})

---------------------------------------------------------------------------
(* C09: every output format encodes exactly the computed result.  The      *)
(* harness parses the tool's own output back into canonical row strings    *)
(* (package formats, trusted) and renders the API result of the same run   *)
(* in the same syntax; here the two are compared as sets, and every format *)
(* is compared with the first format seen for the same world and options.  *)
SS(s) == {s[i] : i \in DOMAIN s}
FormatMismatches(ev, base) ==
  IF ev.outcome # "ok" THEN {}
  ELSE LET o == ev.out
           a == ev.api
           tag == <<ev.fmt, ev.exposure>>
       IN (IF o.ok /\ ev.fmtErr = "" THEN {} ELSE {<<"C09-output-not-parseable", tag, o.err, ev.fmtErr>>})
          \cup (IF SS(o.conn) = SS(a.conn) THEN {}
                ELSE {<<"C09-connections-differ-from-result", tag, "missing", SS(a.conn) \ SS(o.conn), "extra", SS(o.conn) \ SS(a.conn)>>})
          \cup (IF ~ev.exposure \/ SS(o.x) = SS(a.x) THEN {}
                ELSE {<<"C09-exposure-rows-differ-from-result", tag, "missing", SS(a.x) \ SS(o.x), "extra", SS(o.x) \ SS(a.x)>>})
          \* what each workload is exposed to: the printed namespace / pod selectors, canonicalised, against the API's selectors
          \cup (IF ~ev.exposure \/ ev.fmt = "dot" \/ SS(o.xsel) = SS(a.xsel) THEN {}
                ELSE {<<"C09-exposure-peer-selectors-differ-from-result", tag, "missing", SS(a.xsel) \ SS(o.xsel), "extra", SS(o.xsel) \ SS(a.xsel)>>})
          \cup (IF ~ev.exposure \/ ev.fmt = "dot" \/ SS(o.xip) = SS(a.xip) THEN {}
                ELSE {<<"C09-exposure-ip-rows-differ", tag, "missing", SS(a.xip) \ SS(o.xip), "extra", SS(o.xip) \ SS(a.xip)>>})
          \cup (IF ~ev.exposure \/ ~o.hasUnp \/ SS(o.unprot) = SS(a.unprot) THEN {}
                ELSE {<<"C09-unprotected-lines-differ", tag, SS(a.unprot), SS(o.unprot)>>})
          \* all formats yield the same relation
          \cup (IF base.nil \/ base.exposure # ev.exposure THEN {}
                ELSE (IF SS(o.conn) = SS(base.out.conn) THEN {} ELSE {<<"C09-formats-disagree", tag, base.fmt>>})
                     \cup (IF ~ev.exposure \/ SS(o.x) = SS(base.out.x) THEN {} ELSE {<<"C09-formats-disagree-on-exposure", tag, base.fmt>>})
                     \cup (IF ~ev.exposure \/ ev.fmt = "dot" \/ base.fmt = "dot" \/ SS(o.xrep) = SS(base.out.xrep) THEN {}
                           ELSE {<<"C09-formats-disagree-on-representative-peers", tag, base.fmt,
                                   SS(o.xrep) \ SS(base.out.xrep), SS(base.out.xrep) \ SS(o.xrep)>>}))

DiffFormatMismatches(ev) ==
  IF ev.outcome # "ok" THEN {}
  ELSE LET o == ev.out
           a == ev.api
           want == IF ev.fmt = "dot" THEN SS(a.rowsNoInfo) ELSE SS(a.rows)
       IN (IF o.ok THEN {} ELSE {<<"C09-diff-output-not-parseable", ev.fmt, o.err>>})
          \cup (IF SS(o.rows) = want THEN {}
                ELSE {<<"C09-diff-rows-differ-from-result", ev.fmt, "missing", want \ SS(o.rows), "extra", SS(o.rows) \ want>>})
          \* (an empty diff prints nothing at all, in every format)
          \cup (IF ev.fmt # "dot" \/ SS(a.rows) = {} \/ SS(o.unchanged) = SS(a.unchanged) THEN {}
                ELSE {<<"C09-diff-dot-unchanged-edges-differ", SS(a.unchanged) \ SS(o.unchanged), SS(o.unchanged) \ SS(a.unchanged)>>})
          \cup (IF ev.fmt # "dot" \/ SS(a.newLost) \subseteq SS(o.nodes) THEN {}
                ELSE {<<"C09-diff-dot-new-lost-peers-not-marked", SS(a.newLost) \ SS(o.nodes)>>})

---------------------------------------------------------------------------
(* C08: for a fixed set of resources every command / format gives          *)
(* byte-identical output on every run and for every layout of the same     *)
(* documents (order, split over files and directories, List wrapping,      *)
(* permutation of semantically unordered rule / peer / port lists).        *)
DeterminismMismatches(ev) ==
  LET keys == {ev.runs[i].key : i \in DOMAIN ev.runs}
      hashes(k) == {ev.runs[i].hash : i \in {i \in DOMAIN ev.runs : ev.runs[i].key = k}}
      layoutsOf(k, h) == {ev.runs[i].layout : i \in {i \in DOMAIN ev.runs : ev.runs[i].key = k /\ ev.runs[i].hash = h}}
  IN {<<"C08-output-varies", k, {<<h, layoutsOf(k, h)>> : h \in hashes(k)}>> : k \in {k \in keys : Cardinality(hashes(k)) > 1}}

---------------------------------------------------------------------------
(* C03: eval.  One aggregated query q = [s, d, same, r, msg]: s, d are     *)
(* <<"w", i, pod>> / <<"a", class, 0>>; r[k][n] is the reply for protocol  *)
(* ProtoSeq[k] and model port n: 0 false, 1 true, 2 error, 3 inconsistent  *)
(* within one port chunk, -1 not asked.                                    *)
ProtoSeq == <<"TCP", "UDP", "SCTP">>
QPeer(x) == <<x[1], x[2]>>

(* listOK: the `list` run of the same world succeeded; lconn(p, q): what it reported *)
EvalMismatches(w, eobs, listOK, lconn(_, _)) ==
  IF eobs.outcome = "panic" THEN {<<"panic", eobs.errMsg>>}
  ELSE IF eobs.outcome = "error"
  THEN (IF listOK THEN {<<"C03-eval-engine-fails-where-list-succeeds", eobs.errMsg>>} ELSE {})
  ELSE
  LET bad == {<<i, k, n>> \in (DOMAIN eobs.q) \X (1..3) \X Ports(w) :
                LET q == eobs.q[i]
                    src == QPeer(q.s)
                    dst == QPeer(q.d)
                    got == q.r[k][n]
                    pt == <<ProtoSeq[k], n>>
                    exp == q.same \/ pt \in Conn(w, src, dst)
                IN /\ got # -1
                   /\ \/ got = 3
                      \/ (got = 2 /\ listOK)                       \* eval must answer where list can
                      \/ (got \in {0, 1} /\ (got = 1) # exp)       \* the semantics
                      \/ (got \in {0, 1} /\ listOK /\ src # dst   \* ... and the list result of the same run
                            /\ (got = 1) # (pt \in lconn(src, dst)))}
  IN {<<"C03-eval", eobs.via, eobs.q[b[1]].s, eobs.q[b[1]].d, ProtoSeq[b[2]], b[3],
        "reply", eobs.q[b[1]].r[b[2]][b[3]], "expected", eobs.q[b[1]].same \/ <<ProtoSeq[b[2]], b[3]>> \in Conn(w, QPeer(eobs.q[b[1]].s), QPeer(eobs.q[b[1]].d)),
        eobs.q[b[1]].msg>> : b \in bad}

=============================================================================
