CONSTANTS
  M = 3
  NR = 3
  CanonOnAdd = TRUE
  CanonOnUnion = TRUE
  AddSkipsWhenAll = TRUE
  ContainedChecksNames = TRUE
  SubtractChecksContained = TRUE
  IsAllByRangeOnly = TRUE
  IntersectDropsEmpty = TRUE
SPECIFICATION TSpec
POSTCONDITION TraceAccepted
CHECK_DEADLOCK FALSE
