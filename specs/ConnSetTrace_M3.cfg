CONSTANTS
  M = 3
  NR = 3
SPECIFICATION TSpec
POSTCONDITION TraceAccepted
CHECK_DEADLOCK FALSE
