------------------------------ MODULE IngressRef ------------------------------
(***************************************************************************)
(* C10: {ingress-controller} => W lines.                                   *)
(*   Ingress / Route (in W's namespace) -> Service of that namespace whose *)
(*   selector matches W's pod labels -> designated service port(s) ->      *)
(*   targetPort (number | name | default = port) -> TCP container ports of *)
(*   W, intersected with what the policies allow into W from an arbitrary  *)
(*   unlabeled pod in a namespace unknown to the input.                    *)
(* Designation: an Ingress backend designates a service port by its number *)
(* or its name (as stated in the property).  For a Route the property      *)
(* leaves "designates" open; the reference takes the tool's documented     *)
(* rule: no port -> every service port; otherwise the first service port   *)
(* whose name, number or targetPort equals the route's targetPort.         *)
(***************************************************************************)
EXTENDS Obs

Svcs(w, ns, name) == {i \in DOMAIN w.services :
                        w.services[i].ns = ns /\ w.services[i].name = name /\ ~w.services[i].selNil}
SvcSelects(s, wl) == s.ns = wl.ns /\ \A k \in DOMAIN s.selector : HasLabel(wl.labels, k) /\ wl.labels[k] = s.selector[k]

(* index of the service ports an Ingress backend designates *)
IngressDesignated(s, des) ==
  {k \in DOMAIN s.ports : IF des.kind = "num" THEN s.ports[k].port = des.num
                          ELSE s.ports[k].name # "" /\ s.ports[k].name = des.name}

SameOpt(a, b) == ~a.nil /\ ~b.nil /\ a.kind = b.kind /\ a.num = b.num /\ a.name = b.name
RouteMatch(sp, des) == \/ (des.kind = "name" /\ sp.name # "" /\ sp.name = des.name)
                       \/ (des.kind = "num" /\ sp.port = des.num)
                       \/ SameOpt(sp.targetPort, des)
RouteDesignated(s, des) ==
  IF des.nil THEN DOMAIN s.ports
  ELSE LET ms == {k \in DOMAIN s.ports : RouteMatch(s.ports[k], des)}
       IN IF ms = {} THEN {} ELSE {CHOOSE k \in ms : \A k2 \in ms : k <= k2}

(* container ports of wl reached through a service port *)
FirstNamed(wl, name) ==
  LET cs == {i \in DOMAIN wl.ports : wl.ports[i].name = name}
  IN IF cs = {} THEN {} ELSE {wl.ports[CHOOSE i \in cs : \A j \in cs : i <= j]}
TcpPorts(wl) == {wl.ports[i].port : i \in {i \in DOMAIN wl.ports : wl.ports[i].proto = "TCP"}}
Reached(sp, wl) ==
  LET tp == sp.targetPort
      cand == IF tp.nil THEN {sp.port}
              ELSE IF tp.kind = "num" THEN {tp.num}
              ELSE {c.port : c \in {c \in FirstNamed(wl, tp.name) : c.proto = "TCP"}}
  IN cand \cap TcpPorts(wl)

(* all (service index, designated port index set) pairs targeting namespace ns *)
BackendTargets(w, ns) ==
  UNION {LET g == w.ingresses[i]
             bes == (IF g.defaultNil THEN {} ELSE {g.default}) \cup Range(g.rules)
         IN UNION {{<<si, IngressDesignated(w.services[si], be.port)>> : si \in Svcs(w, ns, be.svc)} : be \in bes}
         : i \in {i \in DOMAIN w.ingresses : w.ingresses[i].ns = ns}}
  \cup
  UNION {LET r == w.routes[i]
             names == {r.to} \cup Range(r.alternates)
         IN UNION {{<<si, RouteDesignated(w.services[si], r.targetPort)>> : si \in Svcs(w, ns, n)} : n \in names}
         : i \in {i \in DOMAIN w.routes : w.routes[i].ns = ns}}

Targeted(w, p) == \E t \in BackendTargets(w, WL(w, p).ns) : SvcSelects(w.services[t[1]], WL(w, p))
IngressWanted(w, p) ==
  {"TCP"} \X UNION {UNION {Reached(w.services[t[1]].ports[k], WL(w, p)) : k \in t[2]}
                    : t \in {t \in BackendTargets(w, WL(w, p).ns) : SvcSelects(w.services[t[1]], WL(w, p))}}

(* the arbitrary in-cluster source: an unlabeled pod in a namespace the input does not know *)
Hypo == [ns |-> "ingress-controller-ns", name |-> "ingress-controller", labels |-> <<>>, ports |-> <<>>,
         kind |-> "Pod", expr |-> "bare", replicas |-> -1, podCount |-> 1]
WithHypo(w) == [w EXCEPT !.workloads = Append(@, Hypo)]
PolicyAllowsIn(w, p) == Conn(WithHypo(w), <<"w", Len(w.workloads) + 1>>, p)

IngressLine(w, p) == IngressWanted(w, p) \cap PolicyAllowsIn(w, p)

IngressMismatches(w, obs) ==
  IF obs.outcome # "ok" THEN {}
  ELSE
  LET es == obs.conns
      ing == {i \in DOMAIN es : es[i].src.t = "ing"}
      lineOf(p) == {i \in ing : es[i].dst.t = "w" /\ es[i].dst.key = WKey(WL(w, p))}
      got(p) == UNION {EntryPoints(w, es[i]) : i \in lineOf(p)}
      ws == {<<"w", i>> : i \in WIdx(w)}
      wrong == {p \in ws : got(p) # IngressLine(w, p) \/ Cardinality(lineOf(p)) > 1
                           \/ (IngressLine(w, p) = {} /\ lineOf(p) # {})}
      stray == {i \in ing : es[i].dst.t # "w" \/ es[i].dst.key \notin WKeys(w)}
      warns == {i \in DOMAIN obs.errors : obs.errors[i].class = "blockedIngress"}
      warnedKeys == UNION {Range(obs.errors[i].mentions) : i \in warns}
      \* blocked by the policies although some port is wanted: a warning must name W
      blocked == {p \in ws : IngressWanted(w, p) # {} /\ IngressLine(w, p) = {}}
      \* a warning may only name a targeted workload that got no line
      legit == {WKey(WL(w, p)) : p \in {p \in ws : Targeted(w, p) /\ IngressLine(w, p) = {}}}
  IN {<<"C10-line", WKey(WL(w, p)), "expected", IngressLine(w, p), "observed", got(p),
        "wanted-by-ingress", IngressWanted(w, p)>> : p \in wrong}
     \cup {<<"C10-stray-line", es[i].dst.key>> : i \in stray}
     \cup {<<"C10-missing-blocked-warning", WKey(WL(w, p))>> : p \in {p \in blocked : WKey(WL(w, p)) \notin warnedKeys}}
     \cup {<<"C10-spurious-blocked-warning", k>> : k \in warnedKeys \ legit}
=============================================================================
