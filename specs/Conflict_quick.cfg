CONSTANTS
  Sizes = {2, 3, 5, 12, 13, 33}
  AllPairsUpTo = 5
SPECIFICATION Spec
INVARIANT Emit
INVARIANT PriosOK
CHECK_DEADLOCK FALSE
