CONSTANTS
  Sim = TRUE
  Small = FALSE
  MaxSteps = 25
SPECIFICATION Spec
INVARIANT UniqueKeys
INVARIANT DeleteAbsentIsNoOp
CHECK_DEADLOCK FALSE
