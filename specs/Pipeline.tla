------------------------------- MODULE Pipeline -------------------------------
(***************************************************************************)
(* Machine M4 (C13): the processing pipeline                               *)
(*   fsscanner (extension filter, per-file YAML stream)                    *)
(*   -> parser (per-document conversion, other kinds skipped)              *)
(*   -> engine build (fatal conflicts) -> analysis -> result.              *)
(* A scenario is a directory: files in lexical order, each a stream of     *)
(* document classes.  Good documents are numbered; injected items are of   *)
(* the classes named in the property:                                      *)
(*   document items: "otherKind" (a kind the analysis does not use),       *)
(*                   "badSchema" (fails schema conversion),                *)
(*                   "fatal" (a conflicting policy -- control for clause 4)*)
(*                   "nokindDoc" (a YAML document that is not a manifest,  *)
(*                   inside a multi-document file: unreadable, but the     *)
(*                   rest of the file is still read unless stop-on-error)  *)
(*   file items:     "nonmanifest" (ignored extension),                    *)
(*                   "broken" (syntactically broken YAML),                 *)
(*                   "nokind" (YAML that is not a manifest).               *)
(* The machine consumes the directory document by document, the way the    *)
(* code does, including its deliberate behaviours: a syntax error aborts   *)
(* the rest of that file (ScanFileAbort); with stop-on-error the scan      *)
(* itself fails at the first unreadable file.  TLC checks the four clauses *)
(* of C13 as invariants of the terminal state for every scenario, and      *)
(* prints every scenario with the outcome the model predicts.              *)
(***************************************************************************)
EXTENDS Integers, Sequences, FiniteSets, TLC, Json

CONSTANTS MaxItems      \* number of injected items per scenario (0..MaxItems)

Good == {"g1", "g2", "g3", "g4"}      \* the good documents (namespace, two workloads, one policy)
DocItems == {"otherKind", "badSchema", "fatal", "nokindDoc"}
FileItems == {"nonmanifest", "broken", "nokind"}

(* templates: how the good documents are spread over files (lexical order) *)
(* the last one has no NetworkPolicy at all: the parser then adds a (non-severe) "no network policy resources" warning AFTER   *)
(* whatever it reported for the documents                                                                                     *)
Templates == { << <<"g1", "g2", "g3", "g4">> >>, << <<"g1", "g2">>, <<"g3", "g4">> >>, << <<"g4">>, <<"g1">>, <<"g2", "g3">> >>,
               << <<"g1", "g2", "g3">> >> }
HasPolicyDoc(fs) == \E f \in DOMAIN fs : \E p \in DOMAIN fs[f].docs : fs[f].docs[p] = "g4"

File(cls, docs) == [cls |-> cls, docs |-> docs]
BaseFiles(t) == [i \in DOMAIN t |-> File("yaml", t[i])]

InsertAt(s, p, x) == SubSeq(s, 1, p) \o <<x>> \o SubSeq(s, p + 1, Len(s))

(* one injection applied to a directory *)
Injections(fs) ==
  {[fs EXCEPT ![x[1]].docs = InsertAt(@, x[2], x[3])] :
      x \in {y \in (DOMAIN fs) \X (0..5) \X DocItems : /\ fs[y[1]].cls = "yaml" /\ y[2] <= Len(fs[y[1]].docs)
                                                         \* the "fatal" item is a second policy named like g4: a conflict only next to g4
                                                         /\ (y[3] = "fatal" => HasPolicyDoc(fs))}}
  \cup {<<File(it, <<>>)>> \o fs : it \in FileItems}
  \cup {fs \o <<File(it, <<>>)>> : it \in FileItems}

RECURSIVE Inject(_, _)
Inject(S, n) == IF n = 0 THEN S ELSE S \cup Inject(UNION {Injections(fs) : fs \in S}, n - 1)

Dirs == Inject({BaseFiles(t) : t \in Templates}, MaxItems)

(* for diff the other directory is either clean or carries unreadable items of its own *)
Scenarios == {[files |-> fs, stop |-> s, cmd |-> c, other |-> o] :
                fs \in Dirs, s \in BOOLEAN, c \in {"list", "diff1", "diff2"}, o \in {"clean", "junk"}}
Relevant(x) == x.cmd # "list" \/ x.other = "clean"

---------------------------------------------------------------------------
VARIABLES scn,       \* the scenario (constant during a run)
          phase,     \* "scan" | "build" | "done"
          fi, di,    \* next file / next document
          objs,      \* good documents handed to the engine so far (a set) + whether a conflicting policy was seen
          conflict,
          errs,      \* accumulated entries: [sev |-> "severe"|"fatal", file |-> index]
          outcome    \* "" | "result" | "empty" | "error"
vars == <<scn, phase, fi, di, objs, conflict, errs, outcome>>

Init == /\ scn \in {x \in Scenarios : Relevant(x)}
        /\ phase = "scan" /\ fi = 1 /\ di = 1 /\ objs = {} /\ conflict = FALSE /\ errs = {} /\ outcome = ""

CurFile == scn.files[fi]
Severe == {e \in errs : e.sev = "severe"}

(* files the scanner does not even open *)
SkipFile == /\ phase = "scan" /\ fi <= Len(scn.files) /\ CurFile.cls = "nonmanifest"
            /\ fi' = fi + 1 /\ di' = 1 /\ UNCHANGED <<scn, phase, objs, conflict, errs, outcome>>

(* an unreadable file: severe entry; with stop-on-error the scan fails as a whole (no infos at all) *)
ScanFileAbort ==
  /\ phase = "scan" /\ fi <= Len(scn.files) /\ CurFile.cls \in {"broken", "nokind"}
  /\ errs' = errs \cup {[sev |-> "severe", file |-> fi]}
  /\ IF scn.stop
     THEN /\ phase' = "done" /\ outcome' = "error" /\ UNCHANGED <<fi, di>>
     ELSE /\ fi' = fi + 1 /\ di' = 1 /\ UNCHANGED <<phase, outcome>>
  /\ UNCHANGED <<scn, objs, conflict>>

ConvertDoc ==
  /\ phase = "scan" /\ fi <= Len(scn.files) /\ CurFile.cls = "yaml" /\ di <= Len(CurFile.docs)
  /\ LET d == CurFile.docs[di]
     IN IF d = "nokindDoc" /\ scn.stop
        THEN \* an undecodable document: with stop-on-error the scan fails as a whole
             /\ errs' = errs \cup {[sev |-> "severe", file |-> fi]}
             /\ phase' = "done" /\ outcome' = "error" /\ UNCHANGED <<scn, fi, di, objs, conflict>>
        ELSE /\ objs' = IF d \in Good THEN objs \cup {d} ELSE objs
             /\ conflict' = (conflict \/ d = "fatal")
             /\ errs' = IF d \in {"badSchema", "nokindDoc"} THEN errs \cup {[sev |-> "severe", file |-> fi]} ELSE errs
             /\ di' = di + 1 /\ UNCHANGED <<scn, phase, fi, outcome>>

NextFile == /\ phase = "scan" /\ fi <= Len(scn.files) /\ CurFile.cls = "yaml" /\ di > Len(CurFile.docs)
            /\ fi' = fi + 1 /\ di' = 1 /\ UNCHANGED <<scn, phase, objs, conflict, errs, outcome>>

(* all documents converted: stop-on-error with a severe entry ends with an empty result *)
OtherJunk == scn.cmd # "list" /\ scn.other = "junk"
EndScan == /\ phase = "scan" /\ fi > Len(scn.files)
           /\ IF scn.stop /\ OtherJunk
              THEN phase' = "done" /\ outcome' = "error"       \* the scan of the other directory fails
              ELSE IF scn.stop /\ Severe # {}
              THEN phase' = "done" /\ outcome' = "empty"
              ELSE phase' = "build" /\ outcome' = outcome
           /\ UNCHANGED <<scn, fi, di, objs, conflict, errs>>

BuildAndAnalyse ==
  /\ phase = "build"
  /\ IF conflict
     THEN /\ errs' = errs \cup {[sev |-> "fatal", file |-> 0]} /\ outcome' = "error"
     ELSE /\ errs' = errs /\ outcome' = "result"
  /\ phase' = "done" /\ UNCHANGED <<scn, fi, di, objs, conflict>>

Done == phase = "done" /\ UNCHANGED vars

Next == SkipFile \/ ScanFileAbort \/ ConvertDoc \/ NextFile \/ EndScan \/ BuildAndAnalyse \/ Done
Spec == Init /\ [][Next]_vars

---------------------------------------------------------------------------
(* C13 as invariants of the terminal state *)
SevereItemFiles == {f \in DOMAIN scn.files : scn.files[f].cls \in {"broken", "nokind"}
                                             \/ \E p \in DOMAIN scn.files[f].docs : scn.files[f].docs[p] \in {"badSchema", "nokindDoc"}}
HasFatalItem == \E f \in DOMAIN scn.files : \E p \in DOMAIN scn.files[f].docs : scn.files[f].docs[p] = "fatal"

(* 1. injected documents never change the computed connections: a result is computed from all good documents *)
GoodIn == {d \in Good : \E f \in DOMAIN scn.files : \E p \in DOMAIN scn.files[f].docs : scn.files[f].docs[p] = d}
NoSkew == (phase = "done" /\ outcome = "result") => objs = GoodIn
(* 2. every unreadable / malformed item is reported as severe, attributable to its file
      (unless the run was cut short by stop-on-error before reaching it) *)
SevereReported == (phase = "done" /\ ~scn.stop) => \A f \in SevereItemFiles : [sev |-> "severe", file |-> f] \in errs
(* 3. stop-on-error: a severe error yields no connections *)
StopYieldsNoConnections == (phase = "done" /\ scn.stop /\ (SevereItemFiles # {} \/ OtherJunk)) => outcome \in {"empty", "error"}
(* 4. a fatal error always yields an error and no result *)
FatalYieldsError == (phase = "done" /\ [sev |-> "fatal", file |-> 0] \in errs) => outcome = "error"
FatalReached == (phase = "done" /\ HasFatalItem /\ ~(scn.stop /\ (SevereItemFiles # {} \/ OtherJunk))) => outcome = "error"

(* emission: once per terminal state *)
Emit == phase = "done" =>
          PrintT("CASE " \o ToJson([files |-> scn.files, stop |-> scn.stop, cmd |-> scn.cmd, other |-> scn.other, predicted |-> outcome,
                                    severeFiles |-> SevereItemFiles, fatal |-> HasFatalItem]))
=============================================================================
