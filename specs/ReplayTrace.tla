---------------------------- MODULE ReplayTrace ----------------------------
(***************************************************************************)
(* Trace specification for machine M1 (DESIGN.md 4.3): validates ndjson    *)
(* traces recorded by /verif/harness from executions of the real tool.     *)
(* One event per line; every step is deterministic given the logged event, *)
(* so validation is linear in the trace length.  A rejected event does not *)
(* stop validation: it prints MISMATCH <line> <world id> <kind> ... and    *)
(* increments `mism`; the driver turns MISMATCH lines into verdicts.       *)
(* Traces of many worlds are concatenated ("World" events reset the state).*)
(***************************************************************************)
EXTENDS Obs, Laws, DiffRef, IngressRef, ExposureRef, Json, IOUtils

TraceFile == IF "TRACE" \in DOMAIN IOEnv THEN IOEnv.TRACE ELSE "trace.ndjson"
Trace == ndJsonDeserialize(TraceFile)

VARIABLES l,      \* next line of the trace
          w,      \* current abstract world
          wid,    \* its id (for messages)
          edit,   \* [chain, label, args]: how w was obtained from prevW (chain = FALSE: unrelated)
          prevW,  \* previous world of the same behaviour
          baseW,  \* first world of the behaviour (diffs over several edits)
          obsL,   \* plain `list` observation of w (if made), else NoObs
          prevL,  \* plain `list` observation of prevW
          fbase,  \* first Format event of the current world for each exposure setting (cross-format comparison)
          mism    \* number of rejected events so far
vars == <<l, w, wid, edit, prevW, baseW, obsL, prevL, fbase, mism>>

NoWorld == [nil |-> TRUE]
NoObs == [nil |-> TRUE, outcome |-> "none"]
NoEdit == [chain |-> FALSE, label |-> "", args |-> <<>>]
NoBase == [f |-> [nil |-> TRUE], t |-> [nil |-> TRUE]]

Init == /\ l = 1 /\ w = NoWorld /\ wid = -1 /\ mism = 0
        /\ edit = NoEdit /\ prevW = NoWorld /\ baseW = NoWorld /\ obsL = NoObs /\ prevL = NoObs
        /\ fbase = NoBase

IsEvent(e) == l <= Len(Trace) /\ Trace[l].ev = e /\ l' = l + 1

(* report a set of mismatches for the current line *)
Report(ms) == /\ \A m \in ms : PrintT("MISMATCH " \o ToJson([line |-> l, wid |-> wid, m |-> m]))
              /\ mism' = mism + Cardinality(ms)

TraceWorld == /\ IsEvent("World")
              /\ w' = Trace[l].world /\ wid' = Trace[l].id
              /\ edit' = [chain |-> Trace[l].chain, label |-> Trace[l].label, args |-> Trace[l].args]
              /\ prevW' = w /\ prevL' = obsL /\ obsL' = NoObs /\ fbase' = NoBase
              /\ baseW' = IF Trace[l].base THEN Trace[l].world ELSE IF Trace[l].chain THEN baseW ELSE NoWorld
              /\ UNCHANGED mism

(* observed point set for a pair of abstract peers *)
ObsConn(ww, obs, p, q) ==
  UNION {EntryPoints(ww, obs.conns[i]) :
           i \in {i \in DOMAIN obs.conns : PeerCovers(ww, obs.conns[i].src, p) /\ PeerCovers(ww, obs.conns[i].dst, q)}}

(* the law of the edit that produced w, asserted on the two real reports (no oracle involved) *)
EdgeLawMismatches(obs) ==
  IF edit.chain /\ prevL.outcome = "ok" /\ obs.outcome = "ok"
  THEN LET c1(p, q) == ObsConn(prevW, prevL, p, q)
           c2(p, q) == ObsConn(w, obs, p, q)
       IN LawViolations(prevW, w, edit.label, edit.args, c1, c2)
  ELSE {}

NoAdmin(ww) == Len(ww.anps) = 0 /\ ww.banp.nil

TraceList == /\ IsEvent("List")
             /\ UNCHANGED <<baseW, w, wid, edit, prevW, prevL, fbase>>
             /\ LET ev == Trace[l]
                    plain == ~ev.opts.exposure /\ ev.opts.focus = "" /\ ~ev.opts.stop
                    expo == ev.opts.exposure /\ ev.opts.focus = "" /\ ~ev.opts.stop
                IN /\ obsL' = IF plain THEN ev.obs ELSE obsL
                   /\ Report(IF plain THEN ListMismatches(w, ev.obs) \cup EdgeLawMismatches(ev.obs)
                                            \cup (IF DistinctKeys(w) THEN IngressMismatches(w, ev.obs) ELSE {})
                             ELSE IF expo /\ NoAdmin(w) /\ DistinctKeys(w)
                             THEN (IF ev.obs.outcome = "panic" THEN {<<"panic", ev.obs.errMsg>>} ELSE {})
                                  \cup BaseUntouchedMismatches(obsL, ev.obs)
                                  \cup (IF ev.obs.outcome = "ok"
                                        THEN SoundnessMismatches(w, ev.obs) \cup CompletenessMismatches(w, ev.obs) ELSE {})
                             ELSE {})

TraceEval == /\ IsEvent("Eval")
             /\ UNCHANGED <<baseW, w, wid, edit, prevW, prevL, obsL, fbase>>
             /\ LET lc(p, q) == ObsConn(w, obsL, p, q)
                IN Report(EvalMismatches(w, Trace[l].obs, obsL.outcome = "ok", lc))

(* C04: diff(prev, cur), diff(cur, prev) and diff(cur, cur); only between worlds whose keys are unambiguous *)
TraceDiff == /\ IsEvent("Diff")
             /\ UNCHANGED <<baseW, w, wid, edit, prevW, prevL, obsL, fbase>>
             /\ LET ev == Trace[l]
                    \* fwd / rev: one edit apart; base / baserev: against the first world of the behaviour (several edits apart)
                    a == CASE ev.dir = "fwd" -> prevW [] ev.dir = "base" -> baseW [] OTHER -> w
                    b == CASE ev.dir = "rev" -> prevW [] ev.dir = "baserev" -> baseW [] OTHER -> w
                IN Report(IF "nil" \notin DOMAIN a /\ "nil" \notin DOMAIN b /\ DistinctKeys(a) /\ DistinctKeys(b) THEN DiffMismatches(a, b, ev.obs) ELSE {})

TraceFocus == /\ IsEvent("Focus")
              /\ UNCHANGED <<baseW, w, wid, edit, prevW, prevL, obsL, fbase>>
              /\ Report(IF obsL.outcome = "ok" THEN FocusMismatches(w, obsL, Trace[l].W, Trace[l].obs) ELSE {})

TraceFormat ==
  /\ IsEvent("Format")
  /\ UNCHANGED <<baseW, w, wid, edit, prevW, prevL, obsL>>
  /\ LET ev == Trace[l]
         base == IF ev.exposure THEN fbase.t ELSE fbase.f
         asBase == [nil |-> FALSE, fmt |-> ev.fmt, exposure |-> ev.exposure, out |-> ev.out]
     IN /\ fbase' = IF base.nil /\ ev.outcome = "ok"
                    THEN (IF ev.exposure THEN [fbase EXCEPT !.t = asBase] ELSE [fbase EXCEPT !.f = asBase])
                    ELSE fbase
        /\ Report(FormatMismatches(ev, base))

TraceDiffFormat == /\ IsEvent("DiffFormat")
                   /\ UNCHANGED <<baseW, w, wid, edit, prevW, prevL, obsL, fbase>>
                   /\ Report(DiffFormatMismatches(Trace[l]))

TraceDeterminism == /\ IsEvent("Determinism")
                    /\ UNCHANGED <<baseW, w, wid, edit, prevW, prevL, obsL, fbase>>
                    /\ Report(DeterminismMismatches(Trace[l]))

Next == TraceWorld \/ TraceList \/ TraceEval \/ TraceDiff \/ TraceFocus \/ TraceFormat \/ TraceDiffFormat \/ TraceDeterminism

Spec == Init /\ [][Next]_vars

(* every line consumed: one state per line plus the initial state *)
TraceAccepted == TLCGet("stats").diameter - 1 = Len(Trace)
=============================================================================
