---------------------------- MODULE ConflictTrace ----------------------------
(***************************************************************************)
(* C19: acceptance of the recorded outcome of list / diff on one case of   *)
(* Conflict.tla.  With a conflict: an error is returned, a fatal entry is  *)
(* in Errors(), there is no report, the error names the conflict class     *)
(* and (for the kinds that have one) a resource that really is in          *)
(* conflict.  Control cases (kind "none") must be analysed without error.  *)
(***************************************************************************)
EXTENDS Integers, Sequences, FiniteSets, TLC, Json, IOUtils

TraceFile == IF "TRACE" \in DOMAIN IOEnv THEN IOEnv.TRACE ELSE "trace.ndjson"
Trace == ndJsonDeserialize(TraceFile)

VARIABLES l, mism
vars == <<l, mism>>
Init == l = 1 /\ mism = 0

ExpectedClass(kind) ==
  CASE kind = "samePriority"   -> {"samePriority"}
    [] kind = "priorityLow"    -> {"priorityValue"}
    [] kind = "priorityHigh"   -> {"priorityValue"}
    [] kind = "dupANPName"     -> {"anpSameName"}
    [] kind = "dupNPName"      -> {"npSameName"}
    [] kind = "twoBANPs"       -> {"banpExists"}
    [] kind = "banpNotDefault" -> {"banpName"}
    [] kind = "ownerLabels"    -> {"podsLabels"}
    [] OTHER -> {}

RunMismatches(ev, which, r) ==
  IF ev.case.kind = "none"
  THEN (IF r.outcome = "ok" /\ ~r.fatal THEN {} ELSE {<<"C19-spurious-conflict", which, ev.case.n, ev.case.fam, r.errClass, r.msg>>})
  ELSE (IF r.outcome = "error" /\ r.fatal /\ ~r.hasResult THEN {}
        ELSE {<<"C19-conflict-not-rejected", which, ev.case.kind, ev.case.n, ev.case.i, ev.case.j, ev.case.fam, r.outcome>>})
       \cup (IF r.outcome = "error" /\ r.errClass \notin ExpectedClass(ev.case.kind)
             THEN {<<"C19-error-does-not-name-the-conflict", which, ev.case.kind, r.errClass, r.msg>>} ELSE {})
       \cup (IF r.outcome = "error" /\ Len(ev.names) > 0 /\ Len(r.mentioned) = 0
             THEN {<<"C19-error-names-no-conflicting-resource", which, ev.case.kind, r.msg>>} ELSE {})

TraceConflict ==
  /\ l <= Len(Trace) /\ Trace[l].ev = "Conflict" /\ l' = l + 1
  /\ LET ev == Trace[l]
         ms == RunMismatches(ev, "list", ev.list) \cup RunMismatches(ev, "diff-dir1", ev.diff1) \cup RunMismatches(ev, "diff-dir2", ev.diff2)
     IN /\ \A m \in ms : PrintT("MISMATCH " \o ToJson([line |-> l, wid |-> ev.id, m |-> m]))
        /\ mism' = mism + Cardinality(ms)

Spec == Init /\ [][TraceConflict]_vars
TraceAccepted == TLCGet("stats").diameter - 1 = Len(Trace)
=============================================================================
