---------------------------- MODULE ConnSetTrace ----------------------------
(***************************************************************************)
(* Trace specification for machine M3 (C11): every recorded step of an     *)
(* operation sequence on real common.ConnectionSet objects must be the     *)
(* ConnSetModel!Apply step with the same post-state, and every observer         *)
(* (IsEmpty, IsAllConnections, Equal, ContainedIn, Contains, String) must  *)
(* agree with the denotations.                                             *)
(***************************************************************************)
EXTENDS ConnSetImpl, Json, IOUtils

TraceFile == IF "TRACE" \in DOMAIN IOEnv THEN IOEnv.TRACE ELSE "trace.ndjson"
Trace == ndJsonDeserialize(TraceFile)

VARIABLES l, rs, irs, sid, mism
tvars == <<l, rs, irs, sid, mism>>

TInit == l = 1 /\ rs = [i \in Regs |-> Empty] /\ irs = [i \in Regs |-> CEmpty] /\ sid = -1 /\ mism = 0
IsEvent(e) == l <= Len(Trace) /\ Trace[l].ev = e /\ l' = l + 1
Report(ms) == /\ \A m \in ms : PrintT("MISMATCH " \o ToJson([line |-> l, wid |-> sid, m |-> m]))
              /\ mism' = mism + Cardinality(ms)

SeqSet(s) == {s[i] : i \in DOMAIN s}
(* denotation of an observed register *)
ObsDen(r) ==
  [pts |-> IF r.all THEN AllPts ELSE UNION {{pr} \X SeqSet(r.pts[pr]) : pr \in Protos},
   names |-> IF r.all THEN {} ELSE UNION {{pr} \X SeqSet(r.names[pr]) : pr \in Protos}]
NoExcl(r) == \A pr \in Protos : Len(r.excl[pr]) = 0
NameFree(r) == \A pr \in Protos : Len(r.names[pr]) = 0 /\ Len(r.excl[pr]) = 0
(* the representation an observed register holds (design layer, ConnSetImpl.tla) *)
ObsRep(r) ==
  [all |-> r.allowAll,
   pm  |-> [pr \in Protos |-> IF pr \in SeqSet(r.keys)
                               THEN PS(SeqSet(r.pts[pr]), SeqSet(r.names[pr]), SeqSet(r.excl[pr]))
                               ELSE Absent]]
(* Design drift: the code's representation after the step is not the one ConnSetImpl!IApply predicts from the   *)
(* representation before it.  NOT a verdict about the property (the denotation checks below are): it says that  *)
(* the design-level proof of ConnSetImplCheck.tla no longer speaks about this code.                             *)
ReportDrift(ev) ==
  LET pred == IApply(irs, ev.o)
      d == {i \in Regs : ObsRep(ev.regs[i]) # pred[i]}
  IN \A i \in d : PrintT("DRIFT " \o ToJson([line |-> l, wid |-> sid, op |-> ev.o.op, reg |-> i,
                                              predicted |-> ToString(pred[i]), observed |-> ToString(ObsRep(ev.regs[i]))]))

TraceStart == /\ IsEvent("Start")
              /\ rs' = [i \in Regs |-> Empty] /\ irs' = [i \in Regs |-> CEmpty] /\ sid' = Trace[l].id
              /\ UNCHANGED mism

StepMismatches(ev, exp) ==
  LET obs == ev.regs
      den(i) == ObsDen(obs[i])
      \* the name part of Intersection is not specified: take it from the observation
      want(i) == IF ev.o.op = "Intersect" /\ i = ev.o.i THEN [pts |-> exp[i].pts, names |-> den(i).names] ELSE exp[i]
      wrongDen == {i \in Regs : Norm(den(i)) # Norm(want(i))}
      notCanon == {i \in Regs : ~obs[i].aligned \/ ~obs[i].canonical \/ obs[i].mixed}
      emptyBad == {i \in Regs : obs[i].empty # SIsEmpty(den(i))}
      \* the flag implies the full set, always; the full set must be flagged unless the register carries
      \* excluded-named-port bookkeeping ("all ports except whatever `http` resolves to" is left unspecified)
      allBad   == {i \in Regs : (obs[i].all /\ ~SIsAll(den(i))) \/ (NoExcl(obs[i]) /\ SIsAll(den(i)) /\ ~obs[i].all)}
      allStr   == {i \in Regs : ((obs[i].str = "All Connections") /\ ~SIsAll(den(i)))
                                \/ (NoExcl(obs[i]) /\ SIsAll(den(i)) /\ obs[i].str # "All Connections")}
      contBad  == {i \in Regs : UNION {{pr} \X SeqSet(obs[i].contains[pr]) : pr \in Protos} # den(i).pts}
      \* Equal: sound always; complete (equal sets compare equal) on name-free sets
      eqBad == {ij \in Regs \X Regs :
                  \/ (ev.eq[ij[1]][ij[2]] /\ ~SEqual(den(ij[1]), den(ij[2])))
                  \/ (NameFree(obs[ij[1]]) /\ NameFree(obs[ij[2]]) /\ SEqual(den(ij[1]), den(ij[2])) /\ ~ev.eq[ij[1]][ij[2]])}
      \* equal name-free sets print identically, different sets differently
      strBad == {ij \in Regs \X Regs :
                   NameFree(obs[ij[1]]) /\ NameFree(obs[ij[2]])
                   /\ (obs[ij[1]].str = obs[ij[2]].str) # SEqual(den(ij[1]), den(ij[2]))}
      \* ContainedIn: sound always; complete unless excluded-named-port bookkeeping is involved
      subBad == {ij \in Regs \X Regs :
                   \/ (ev.sub[ij[1]][ij[2]] /\ ~SContained(den(ij[1]), den(ij[2])))
                   \/ (NoExcl(obs[ij[1]]) /\ NoExcl(obs[ij[2]]) /\ SContained(den(ij[1]), den(ij[2])) /\ ~ev.sub[ij[1]][ij[2]])}
  IN (IF ev.panic # "" THEN {<<"C11-panic", ev.o.op, ev.panic>>} ELSE {})
     \cup {<<"C11-denotation", ev.o.op, i, "expected", Norm(want(i)), "observed", Norm(den(i)),
             IF i = ev.o.i THEN "updated-register" ELSE "operand-or-bystander-modified">> : i \in wrongDen}
     \cup {<<"C11-not-canonical", ev.o.op, i>> : i \in notCanon}
     \cup {<<"C11-isempty", ev.o.op, i, obs[i].empty>> : i \in emptyBad}
     \cup {<<"C11-all-not-recognised", ev.o.op, i, obs[i].all, obs[i].str>> : i \in allBad \cup allStr}
     \cup {<<"C11-contains", ev.o.op, i>> : i \in contBad}
     \cup {<<"C11-equal", ev.o.op, ij, ev.eq[ij[1]][ij[2]], obs[ij[1]].str, obs[ij[2]].str>> : ij \in eqBad}
     \cup {<<"C11-string", ev.o.op, ij, obs[ij[1]].str, obs[ij[2]].str>> : ij \in strBad}
     \cup {<<"C11-containedin", ev.o.op, ij, ev.sub[ij[1]][ij[2]], obs[ij[1]].str, obs[ij[2]].str>> : ij \in subBad}
     \cup {<<"C11-aliasing", ev.o.op, ev.aliased[k]>> : k \in DOMAIN ev.aliased}
     \cup (IF ev.argLeak THEN {<<"C11-argument-aliased", ev.o.op>>} ELSE {})

TraceStep == /\ IsEvent("Step")
             /\ UNCHANGED sid
             /\ LET ev == Trace[l]
                    exp == Apply(rs, ev.o)
                IN /\ rs' = [i \in Regs |-> ObsDen(ev.regs[i])]   \* continue from what the code actually holds
                   /\ irs' = [i \in Regs |-> ObsRep(ev.regs[i])]
                   /\ (ev.panic = "" => ReportDrift(ev))
                   /\ Report(StepMismatches(ev, exp))

TNext == TraceStart \/ TraceStep
TSpec == TInit /\ [][TNext]_tvars
TraceAccepted == TLCGet("stats").diameter - 1 = Len(Trace)
=============================================================================
