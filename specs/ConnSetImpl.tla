----------------------------- MODULE ConnSetImpl -----------------------------
(***************************************************************************)
(* Design layer of machine M3 (C11): common.ConnectionSet / common.PortSet *)
(* as the code represents and updates them, one operator per exported      *)
(* method, same case analysis and same order of tests as the Go source     *)
(* (pkg/netpol/internal/common/connectionset.go, portset.go).              *)
(*                                                                         *)
(*   PortSet       = [has, ports, named, excl]   has = FALSE: the protocol  *)
(*                   is not a key of AllowedProtocols (fixed-shape record:  *)
(*                   TLC cannot compare a record with a "nil" string)       *)
(*   ConnectionSet = [all, pm]                   all = AllowAll,            *)
(*                   pm  = AllowedProtocols as a total function             *)
(*                                                                         *)
(* Ports are the model's chunk numbers 1..M: interval.CanonicalSet is       *)
(* abstracted to the set it denotes (its canonical form is checked on the   *)
(* real objects by the trace specification: flags canonical / aligned).     *)
(* Pointer sharing is not modelled here: every adoption of a PortSet in the *)
(* code goes through Copy(), and the trace specification checks the real    *)
(* pointers after every step (field aliased).                               *)
(*                                                                         *)
(* The constants switch single ingredients of the design off; as built all  *)
(* are TRUE.  ConnSetImplCheck.tla shows with TLC that the as-built design  *)
(* refines ConnSetModel for every reachable representation of the bound     *)
(* and that each ingredient is necessary (dropping it is refuted).          *)
(* ConnSetTrace.tla compares the representation the real objects hold after *)
(* every recorded step with the one these operators predict.                *)
(***************************************************************************)
EXTENDS ConnSetModel

CONSTANTS CanonOnAdd,              \* AddConnection ends with checkIfAllConnections            (D14)
          CanonOnUnion,            \* Union ends with checkIfAllConnections, unconditionally   (seed C11)
          AddSkipsWhenAll,         \* AddConnection on an AllowAll set is a no-op              (D16)
          ContainedChecksNames,    \* PortSet.ContainedIn looks at named ports                 (D9)
          SubtractChecksContained, \* Subtract deletes a protocol whose ports are contained    (seed C11c)
          IsAllByRangeOnly,        \* PortSet.IsAll = full numeric range, names ignored        (D17)
          IntersectDropsEmpty      \* Intersection deletes a protocol left without ports       (seed C05d)

Absent == [has |-> FALSE, ports |-> {}, named |-> {}, excl |-> {}]
PS(ports, named, excl) == [has |-> TRUE, ports |-> ports, named |-> named, excl |-> excl]
PSFull == PS(Ports, {}, {})                                  \* MakePortSet(true)

PSIsEmpty(p) == p.ports = {} /\ p.named = {}
PSIsAll(p) == IF IsAllByRangeOnly THEN p.ports = Ports ELSE p.ports = Ports /\ p.named = {} /\ p.excl = {}
PSUnion(p, o) ==
  LET named == p.named \cup o.named
  IN PS(p.ports \cup o.ports, named, (p.excl \ o.named) \cup (o.excl \ named))
PSContainedIn(p, o) ==
  /\ p.ports \subseteq o.ports
  /\ ContainedChecksNames => \A n \in p.named : n \in o.named \/ o.ports = Ports
PSIntersect(p, o) == PS(p.ports \cap o.ports, p.named, p.excl)       \* only Ports is intersected
PSSubtract(p, o) == PS(p.ports \ o.ports, p.named \ o.named, p.excl \cup o.named)

CEmpty == [all |-> FALSE, pm |-> [pr \in Protos |-> Absent]]         \* MakeConnectionSet(false)
CAll   == [all |-> TRUE,  pm |-> [pr \in Protos |-> Absent]]         \* MakeConnectionSet(true)
CMake(a) == IF a THEN CAll ELSE CEmpty
CIsEmpty(c) == ~c.all /\ \A pr \in Protos : ~c.pm[pr].has
IsAllWithoutFlag(c) == ~c.all /\ \A pr \in Protos : c.pm[pr].has /\ PSIsAll(c.pm[pr])
Canon(c) == IF IsAllWithoutFlag(c) THEN CAll ELSE c                  \* checkIfAllConnections

CUnion(c, o) ==
  IF c.all \/ CIsEmpty(o) THEN c
  ELSE IF o.all THEN CAll
  ELSE LET n == [all |-> FALSE,
                 pm |-> [pr \in Protos |->
                           IF c.pm[pr].has /\ o.pm[pr].has THEN PSUnion(c.pm[pr], o.pm[pr])
                           ELSE IF o.pm[pr].has THEN o.pm[pr]                     \* adopted through Copy()
                           ELSE c.pm[pr]]]
       IN IF CanonOnUnion \/ \E pr \in Protos : o.pm[pr].has /\ ~c.pm[pr].has THEN Canon(n) ELSE n

CSubtract(c, o) ==
  IF CIsEmpty(o) THEN c
  ELSE IF o.all THEN CEmpty
  ELSE LET b == IF c.all THEN [all |-> FALSE, pm |-> [pr \in Protos |-> PSFull]] ELSE c   \* addAllConns
       IN [all |-> FALSE,
           pm |-> [pr \in Protos |->
                     IF b.pm[pr].has /\ o.pm[pr].has
                     THEN IF SubtractChecksContained /\ PSContainedIn(b.pm[pr], o.pm[pr]) THEN Absent
                          ELSE PSSubtract(b.pm[pr], o.pm[pr])
                     ELSE b.pm[pr]]]

CIntersect(c, o) ==
  IF o.all THEN c
  ELSE IF c.all THEN [all |-> FALSE, pm |-> o.pm]
  ELSE [all |-> FALSE,
        pm |-> [pr \in Protos |->
                  IF ~c.pm[pr].has \/ ~o.pm[pr].has THEN Absent
                  ELSE LET x == PSIntersect(c.pm[pr], o.pm[pr])
                       IN IF IntersectDropsEmpty /\ PSIsEmpty(x) THEN Absent ELSE x]]

CAdd(c, pr, ps) ==
  IF (AddSkipsWhenAll /\ c.all) \/ PSIsEmpty(ps) THEN c
  ELSE LET n == [c EXCEPT !.pm[pr] = IF @.has THEN PSUnion(@, ps) ELSE ps]
       IN IF CanonOnAdd THEN Canon(n) ELSE n

CContainedIn(c, o) ==
  IF o.all THEN TRUE
  ELSE IF c.all THEN FALSE
  ELSE \A pr \in Protos : c.pm[pr].has => (o.pm[pr].has /\ PSContainedIn(c.pm[pr], o.pm[pr]))
CEqual(c, o) == c = o            \* AllowAll, key sets and the three fields of every PortSet
CContains(c, pr, n) == c.all \/ (c.pm[pr].has /\ n \in c.pm[pr].ports)

(* the PortSet the harness passes to AddConnection for an "Add" operation  *)
SpecPS(s) == PS(s.lo..s.hi, {s.names[i] : i \in DOMAIN s.names}, {})

IApply(rs, o) ==
  CASE o.op = "Make"      -> [rs EXCEPT ![o.i] = CMake(o.all)]
    [] o.op = "Add"       -> [rs EXCEPT ![o.i] = CAdd(@, o.spec.proto, SpecPS(o.spec))]
    [] o.op = "Union"     -> [rs EXCEPT ![o.i] = CUnion(@, rs[o.j])]
    [] o.op = "Subtract"  -> [rs EXCEPT ![o.i] = CSubtract(@, rs[o.j])]
    [] o.op = "Intersect" -> [rs EXCEPT ![o.i] = CIntersect(@, rs[o.j])]
    [] o.op = "Copy"      -> [rs EXCEPT ![o.i] = rs[o.j]]

(* abstraction function: the denotation ConnSetModel talks about           *)
Den(c) == IF c.all THEN Full
          ELSE [pts   |-> UNION {{pr} \X c.pm[pr].ports : pr \in Protos},
                names |-> UNION {{pr} \X c.pm[pr].named : pr \in Protos}]
RNoExcl(c) == \A pr \in Protos : c.pm[pr].excl = {}
RNameFree(c) == \A pr \in Protos : c.pm[pr].named = {} /\ c.pm[pr].excl = {}

(* representation invariant the observers rely on                          *)
RepInv(c) ==
  /\ c.all => \A pr \in Protos : ~c.pm[pr].has
  /\ \A pr \in Protos : LET p == c.pm[pr] IN
       /\ ~p.has => p = Absent
       /\ p.has => ~PSIsEmpty(p)                  \* IsEmpty counts keys
       /\ p.named \cap p.excl = {}
=============================================================================
