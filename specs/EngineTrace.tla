---------------------------- MODULE EngineTrace ----------------------------
(***************************************************************************)
(* Trace specification for machine M2 (C15): validates histories recorded  *)
(* from a real eval.PolicyEngine.  Events:                                 *)
(*   Init   - a new history (fresh engine)                                 *)
(*   Op     - one InsertObject / DeleteObject / ClearResources call with   *)
(*            its outcome class; the spec applies EngineModel!Apply        *)
(*   Sweep  - CheckIfAllowed for every endpoint pair x protocol x port     *)
(*            chunk: replies of the engine under test (r), replies of a    *)
(*            fresh engine built from the same current objects (f), and    *)
(*            the hook's projection of internal state.                     *)
(*   Peek   - after every operation and every sweep: every memoised        *)
(*            verdict reachable by a query of the sweep universe, read     *)
(*            from the real cache through the hook VerifCachePeek.         *)
(* A reply is accepted iff it equals EngineModel!ExpectedReply on the      *)
(* current abstract objects AND equals the fresh engine's reply.           *)
(* A memoised verdict is accepted iff it equals ExpectedReply on the       *)
(* current objects (the invariant CacheCoherent of CacheDesign.tla,        *)
(* evaluated on the implementation's cache at every step, whether or not   *)
(* a later query happens to hit the entry).                                *)
(***************************************************************************)
EXTENDS EngineModel, Json, IOUtils

TraceFile == IF "TRACE" \in DOMAIN IOEnv THEN IOEnv.TRACE ELSE "trace.ndjson"
Trace == ndJsonDeserialize(TraceFile)

VARIABLES l, cur, hid, mism
vars == <<l, cur, hid, mism>>

Init == l = 1 /\ cur = EmptyEngine(1, <<>>, 1) /\ hid = -1 /\ mism = 0

IsEvent(e) == l <= Len(Trace) /\ Trace[l].ev = e /\ l' = l + 1
Report(ms) == /\ \A m \in ms : PrintT("MISMATCH " \o ToJson([line |-> l, wid |-> hid, m |-> m]))
              /\ mism' = mism + Cardinality(ms)

TraceInit == /\ IsEvent("Init")
             /\ cur' = EmptyEngine(Trace[l].M, Trace[l].pointPorts, Trace[l].nAddr)
             /\ hid' = Trace[l].id
             /\ UNCHANGED mism

TraceOp == /\ IsEvent("Op")
           /\ UNCHANGED hid
           /\ LET ev == Trace[l]
                  a == Apply(cur, ev.o)
              IN /\ cur' = a.cur
                 /\ Report(IF ev.res = a.res THEN {}
                           ELSE {<<"C15-op-outcome", ev.o.op, "observed", ev.res, "expected", a.res, ev.msg>>})

ProtoSeq == <<"TCP", "UDP", "SCTP">>
SortedByPriority(prios) == \A i \in DOMAIN prios : i < Len(prios) => prios[i] <= prios[i + 1]

SweepMismatches(ev) ==
  LET bad == {<<i, k, n>> \in (DOMAIN ev.q) \X (1..3) \X Ports(cur) :
                LET q == ev.q[i]
                IN \/ q.r[k][n] # ExpectedReply(cur, q.s, q.d, <<ProtoSeq[k], n>>)
                   \/ q.r[k][n] # q.f[k][n]}
  IN {<<"C15-reply", ev.q[b[1]].s, ev.q[b[1]].d, ProtoSeq[b[2]], b[3],
        "reply", ev.q[b[1]].r[b[2]][b[3]], "fresh", ev.q[b[1]].f[b[2]][b[3]],
        "model", ExpectedReply(cur, ev.q[b[1]].s, ev.q[b[1]].d, <<ProtoSeq[b[2]], b[3]>>)>> : b \in bad}
     \cup (IF SortedByPriority(ev.prios) THEN {} ELSE {<<"C15-anps-not-sorted-at-query", ev.sorted, ev.prios>>})

TraceSweep == /\ IsEvent("Sweep")
              /\ UNCHANGED <<cur, hid>>
              /\ Report(SweepMismatches(Trace[l]))

PeekMismatches(ev) ==
  {<<"C15-stale-cached-verdict", ev.c[i].s, ev.c[i].d, ProtoSeq[ev.c[i].k], ev.c[i].n,
     "cached", ev.c[i].v, "model", ExpectedReply(cur, ev.c[i].s, ev.c[i].d, <<ProtoSeq[ev.c[i].k], ev.c[i].n>>)>> :
      i \in {j \in DOMAIN ev.c : ev.c[j].v # ExpectedReply(cur, ev.c[j].s, ev.c[j].d, <<ProtoSeq[ev.c[j].k], ev.c[j].n>>)}}

TracePeek == /\ IsEvent("Peek")
             /\ UNCHANGED <<cur, hid>>
             /\ Report(PeekMismatches(Trace[l]))

Next == TraceInit \/ TraceOp \/ TraceSweep \/ TracePeek
Spec == Init /\ [][Next]_vars
TraceAccepted == TLCGet("stats").diameter - 1 = Len(Trace)
=============================================================================
