------------------------------ MODULE ExposureRef ------------------------------
(***************************************************************************)
(* C06 / C07: what an exposure report must be, relative to *hypothetical*  *)
(* new pods.  A hypothetical pod h has labels, lives in an existing        *)
(* namespace or in a new one (any labels), and may declare named container *)
(* ports.  For a real workload W and a direction,                          *)
(*   Allowed(W, dir, h) = what W's own NetworkPolicies of that direction   *)
(*   allow between W and h (Ref's NetworkPolicy semantics on the world     *)
(*   extended with h).                                                     *)
(* Soundness (C06): every reported entry whose selectors h satisfies (any  *)
(* h for entire-cluster) is realizable: Conc(entry, h) \subseteq Allowed.  *)
(* Completeness (C07): every point of Allowed(W, dir, h) is covered by the *)
(* entire-cluster entry or by an entry h satisfies -- unless every rule    *)
(* that allows it is Omittable (all its selectors are label equalities an  *)
(* existing workload in a matching namespace already satisfies).           *)
(*                                                                         *)
(* The set of hypothetical pods is bounded per (W, dir) by the vocabulary  *)
(* of the policies governing W in that direction plus one fresh key/value, *)
(* the existing namespaces plus new namespaces (a fresh name and every     *)
(* non-existing name the selectors mention) with every assignment of the   *)
(* namespace-label vocabulary, and -- for egress only, where a named port  *)
(* is resolved on the hypothetical destination -- single named-port        *)
(* declarations (allowedness is monotone in the declarations).  Any other  *)
(* pod is equivalent to one of these w.r.t. every selector involved.       *)
(***************************************************************************)
EXTENDS Obs

Fresh == "zz-fresh"
Absent == "-"

SelKeys(s) == (DOMAIN s.ml) \cup {s.ex[i].key : i \in DOMAIN s.ex}
SelVals(s, k) == (IF k \in DOMAIN s.ml THEN {s.ml[k]} ELSE {})
                 \cup UNION {Range(s.ex[i].vals) : i \in {i \in DOMAIN s.ex : s.ex[i].key = k}}

(* pod peers of the rules of the policies governing W in dir, with the policy's namespace *)
GovRules(w, W, dir) == UNION {{<<i, r>> : r \in DOMAIN NPRules(w.netpols[i], dir)} : i \in Governing(w, W, dir)}
GovPeers(w, W, dir) ==
  UNION {LET rule == NPRules(w.netpols[ir[1]], dir)[ir[2]]
         IN {<<ir[1], rule.peers[j]>> : j \in {j \in DOMAIN rule.peers : rule.peers[j].kind = "pod"}}
         : ir \in GovRules(w, W, dir)}

PodSelsOf(w, W, dir, entries) ==
  {ip[2].podSel : ip \in {x \in GovPeers(w, W, dir) : ~x[2].podNil}} \cup {entries[i].podSel : i \in DOMAIN entries}
NsSelsOf(w, W, dir, entries) ==
  {ip[2].nsSel : ip \in {x \in GovPeers(w, W, dir) : ~x[2].nsNil}} \cup {entries[i].nsSel : i \in DOMAIN entries}

Assignments(keys, valsOf(_)) ==
  {f \in [keys -> UNION {valsOf(k) : k \in keys} \cup {Absent, Fresh}] : \A k \in keys : f[k] \in valsOf(k) \cup {Absent, Fresh}}
AsLabels(f) == [k \in {k \in DOMAIN f : f[k] # Absent} |-> f[k]]

PodLabelChoices(w, W, dir, entries) ==
  LET sels == PodSelsOf(w, W, dir, entries)
      keys == UNION {SelKeys(s) : s \in sels} \cup {Fresh}
      valsOf(k) == UNION {SelVals(s, k) : s \in sels}
  IN {AsLabels(f) : f \in Assignments(keys, valsOf)}

ExistingNs(w) == {w.namespaces[i].name : i \in DOMAIN w.namespaces} \cup {w.workloads[i].ns : i \in DOMAIN w.workloads}
                 \cup {w.netpols[i].ns : i \in DOMAIN w.netpols}

(* namespace choices: <<name, labels, isNew>> *)
NsChoices(w, W, dir, entries) ==
  LET sels == NsSelsOf(w, W, dir, entries)
      keys == (UNION {SelKeys(s) : s \in sels}) \ {NameKey}
      valsOf(k) == UNION {SelVals(s, k) : s \in sels}
      mentioned == UNION {SelVals(s, NameKey) : s \in sels}
      newNames == {Fresh} \cup (mentioned \ ExistingNs(w))
  IN {<<n, NsLabels(w, n), FALSE>> : n \in ExistingNs(w)}
     \cup {<<n, [k \in (DOMAIN AsLabels(f)) \cup {NameKey} |-> IF k = NameKey THEN n ELSE AsLabels(f)[k]], TRUE>> :
             n \in newNames, f \in Assignments(keys, valsOf)}

(* named ports that the governing rules or the entries mention *)
MentionedNames(w, W, dir, entries) ==
  UNION {LET rule == NPRules(w.netpols[ir[1]], dir)[ir[2]]
         IN {rule.ports[j].name : j \in {j \in DOMAIN rule.ports : rule.ports[j].kind = "name"}}
         : ir \in GovRules(w, W, dir)}
  \cup UNION {UNION {Range(entries[i].names[pr]) : pr \in Protos} : i \in DOMAIN entries}

PortDecls(w, W, dir, entries) ==
  IF dir = "Ingress" THEN {<<>>}
  ELSE {<<>>} \cup {<<[name |-> n, proto |-> pr, port |-> p]>> :
                      n \in MentionedNames(w, W, dir, entries), pr \in Protos, p \in Range(w.pointPorts)}

(* the world extended with the hypothetical pod (and its namespace, if new) *)
Extended(w, ns, labels, decl) ==
  LET hw == [ns |-> ns[1], name |-> "hypothetical", labels |-> labels, ports |-> decl,
             kind |-> "Pod", expr |-> "bare", replicas |-> -1, podCount |-> 1]
  IN [w EXCEPT !.workloads = Append(@, hw),
               !.namespaces = IF ns[3] THEN Append(@, [name |-> ns[1], hasObject |-> TRUE, labels |-> ns[2]]) ELSE @]

Allowed(w, W, dir, ns, labels, decl) ==
  LET w2 == Extended(w, ns, labels, decl)
      h == <<"w", Len(w.workloads) + 1>>
  IN IF dir = "Ingress" THEN NPAllowedPoints(w2, W, h, W, "Ingress")
     ELSE NPAllowedPoints(w2, W, h, h, "Egress")

(* what an entry promises for a pod with the given port declarations *)
EntryPts(w, e) == IF e.all THEN AllPoints(w) ELSE UNION {{pr} \X Range(e.pp[pr]) : pr \in Protos}
Conc(w, e, decl) ==
  EntryPts(w, e) \cup {<<decl[i].proto, decl[i].port>> : i \in {i \in DOMAIN decl : decl[i].name \in Range(e.names[decl[i].proto])}}

Satisfies(e, ns, labels) == e.entire \/ (SelMatch(e.nsSel, ns[2]) /\ SelMatch(e.podSel, labels))

(* Omittable peer: only label equalities, non-empty pod selector, and some existing workload (in a matching namespace) satisfies them *)
EqualitiesOnly(s) == \A i \in DOMAIN s.ex : s.ex[i].op = "In" /\ Len(s.ex[i].vals) = 1
Omittable(w, npi, pr) ==
  /\ pr.kind = "pod" /\ ~pr.podNil /\ ~SelEmpty(pr.podSel) /\ EqualitiesOnly(pr.podSel)
  /\ (pr.nsNil \/ (~SelEmpty(pr.nsSel) /\ EqualitiesOnly(pr.nsSel)))
  /\ \E i \in WIdx(w) : NPPeerSelects(w, w.netpols[npi], pr, <<"w", i>>)

(* points allowed for h by the governing rules, leaving out peers that are Omittable *)
AllowedNonOmittable(w, W, dir, ns, labels, decl) ==
  LET w2 == Extended(w, ns, labels, decl)
      h == <<"w", Len(w.workloads) + 1>>
      dst == IF dir = "Ingress" THEN W ELSE h
  IN UNION {LET np == w2.netpols[ir[1]]
                rule == NPRules(np, dir)[ir[2]]
                selects == \/ Len(rule.peers) = 0
                           \/ \E j \in DOMAIN rule.peers :
                                /\ NPPeerSelects(w2, np, rule.peers[j], h)
                                /\ ~Omittable(w, ir[1], rule.peers[j])
            IN IF selects THEN NPRulePoints(w2, rule, dst) ELSE {}
            : ir \in GovRules(w, W, dir)}

Ws(w) == {<<"w", i>> : i \in WIdx(w)}
XOf(obsX, key) == {i \in DOMAIN obsX.exposure : obsX.exposure[i].peer.key = key}
EntriesOf(obsX, key, dir) ==
  LET xs == XOf(obsX, key)
  IN IF xs = {} THEN <<>>
     ELSE LET x == obsX.exposure[CHOOSE i \in xs : TRUE] IN IF dir = "Ingress" THEN x.ingress ELSE x.egress
ProtectedFlag(obsX, key, dir) ==
  LET xs == XOf(obsX, key)
  IN IF xs = {} THEN TRUE
     ELSE LET x == obsX.exposure[CHOOSE i \in xs : TRUE] IN IF dir = "Ingress" THEN x.ingressProtected ELSE x.egressProtected

(* C06 *)
SoundnessMismatches(w, obsX) ==
  UNION {LET key == WKey(WL(w, Wd[1]))
             W == Wd[1]
             dir == Wd[2]
             es == EntriesOf(obsX, key, dir)
             gov == Governing(w, W, dir) # {}
             bad == {<<i, ns, ls, d>> \in (DOMAIN es) \X NsChoices(w, W, dir, es) \X PodLabelChoices(w, W, dir, es) \X PortDecls(w, W, dir, es) :
                       /\ Satisfies(es[i], ns, ls)
                       /\ ~(Conc(w, es[i], d) \subseteq Allowed(w, W, dir, ns, ls, d))}
         IN (IF ProtectedFlag(obsX, key, dir) = gov THEN {}
             ELSE {<<"C06-protected-flag", key, dir, "reported-protected", ProtectedFlag(obsX, key, dir), "governed", gov>>})
            \cup (IF ~gov /\ Len(es) > 0 THEN {<<"C06-entries-for-unprotected-workload", key, dir>>} ELSE {})
            \cup (IF Cardinality(XOf(obsX, key)) > 1 THEN {<<"C06-duplicate-exposed-peer", key>>} ELSE {})
            \cup (IF gov
                  THEN {<<"C06-entry-not-realizable", key, dir, [entire |-> es[b[1]].entire, nsSel |-> es[b[1]].nsSel, podSel |-> es[b[1]].podSel],
                          "hypothetical-pod", [ns |-> b[2][1], nsLabels |-> b[2][2], labels |-> b[3], ports |-> b[4]],
                          "entry-promises", Conc(w, es[b[1]], b[4]), "policies-allow", Allowed(w, W, dir, b[2], b[3], b[4])>> : b \in bad}
                  ELSE {})
            \cup {<<"C06-entry-unaligned-or-empty", key, dir>> : i \in {i \in DOMAIN es : ~es[i].aligned}}
         : Wd \in Ws(w) \X {"Ingress", "Egress"}}

(* C07 *)
CompletenessMismatches(w, obsX) ==
  UNION {LET key == WKey(WL(w, Wd[1]))
             W == Wd[1]
             dir == Wd[2]
             es == EntriesOf(obsX, key, dir)
             gov == Governing(w, W, dir) # {}
             covered(ns, ls, d) == UNION {Conc(w, es[i], d) : i \in {i \in DOMAIN es : Satisfies(es[i], ns, ls)}}
             bad == {<<ns, ls, d>> \in NsChoices(w, W, dir, es) \X PodLabelChoices(w, W, dir, es) \X PortDecls(w, W, dir, es) :
                       ~(AllowedNonOmittable(w, W, dir, ns, ls, d) \subseteq covered(ns, ls, d))}
         IN IF gov
            THEN {<<"C07-potential-connection-not-reported", key, dir,
                    "hypothetical-pod", [ns |-> b[1][1], nsLabels |-> b[1][2], labels |-> b[2], ports |-> b[3]],
                    "allowed-not-covered", AllowedNonOmittable(w, W, dir, b[1], b[2], b[3]) \ covered(b[1], b[2], b[3])>> : b \in bad}
            ELSE {}
         : Wd \in Ws(w) \X {"Ingress", "Egress"}}

(* C06 (a): the flag leaves the workload / IP connectivity untouched *)
BaseUntouchedMismatches(plain, obsX) ==
  IF plain.outcome = "ok" /\ obsX.outcome # "ok"
  THEN {<<"C06-exposure-run-fails-where-plain-list-succeeds", obsX.errClass, obsX.errMsg>>}
  ELSE IF plain.outcome = "ok" /\ obsX.outcome = "ok"
       THEN LET a == {EntrySig(plain.conns[i]) : i \in DOMAIN plain.conns}
                b == {EntrySig(obsX.conns[i]) : i \in DOMAIN obsX.conns}
            IN IF a = b THEN {} ELSE {<<"C06-base-connectivity-changed", "missing", a \ b, "extra", b \ a>>}
       ELSE {}
=============================================================================
