------------------------------- MODULE Cluster -------------------------------
(***************************************************************************)
(* Machine M1 (DESIGN.md section 1): the user's manifest set under edit.   *)
(* The state is one abstract world (same shape as the JSON exchanged with  *)
(* the harness); every action is one edit a user could make.  TLC walks    *)
(* this graph (simulation for the full machine, BFS for small configs) and *)
(* prints one CASE per visited state; the harness concretises each case,   *)
(* runs the real tool and records what it observed; ReplayTrace judges the *)
(* observations against Ref and checks, for every edge, the law attached   *)
(* to the action that produced it (Laws in ReplayTrace / Laws.tla).        *)
(*                                                                         *)
(* Parameters of edits are drawn from curated catalogues.  Sim = TRUE:     *)
(* one random catalogue element per evaluation (keeps the branching of     *)
(* -simulate small); Sim = FALSE: all elements (exhaustive configs).       *)
(***************************************************************************)
EXTENDS Ref, Json

CONSTANTS Sim,        \* TRUE: random catalogue picks (simulation); FALSE: exhaustive
          Admin,      \* TRUE: include AdminNetworkPolicy / BANP edits
          Ingr,       \* TRUE: include Service / Ingress / Route edits
          MaxWl, MaxNP, MaxRules, MaxANP, MaxSteps

VARIABLES world, label, args, step,
          hist    \* simulation only: the behaviour so far (printed once, at its end)
vars == <<world, label, args, step, hist>>

Pick(S) == IF Sim /\ S # {} THEN {RandomElement(S)} ELSE S
Rarely(n) == ~Sim \/ RandomElement(1..n) = 1

---------------------------------------------------------------------------
(* catalogues                                                              *)
NoLabels == <<>>
L1(k, v) == (k :> v)
L2(k1, v1, k2, v2) == (k1 :> v1) @@ (k2 :> v2)

EmptySel == [ml |-> NoLabels, ex |-> <<>>]
MLSel(l) == [ml |-> l, ex |-> <<>>]
ExSel(k, op, vs) == [ml |-> NoLabels, ex |-> <<[key |-> k, op |-> op, vals |-> vs]>>]

PodSelCat ==
  { EmptySel, MLSel(L1("app", "a")), MLSel(L1("app", "b")), MLSel(L2("app", "a", "tier", "b")),
    ExSel("app", "In", <<"a">>), ExSel("app", "In", <<"a", "b">>), ExSel("app", "NotIn", <<"a">>),
    ExSel("tier", "Exists", <<>>), ExSel("tier", "DoesNotExist", <<>>), ExSel("zone", "NotIn", <<"a">>),
    MLSel(L1("canary", "")), ExSel("canary", "In", <<"">>), MLSel(L2("app", "a", "canary", "")),
    [ml |-> L1("app", "a"), ex |-> <<[key |-> "tier", op |-> "NotIn", vals |-> <<"b">>]>>] }

NsSelCat ==
  { EmptySel, MLSel(L1("team", "x")), MLSel(L1(NameKey, "ns1")), MLSel(L1(NameKey, "ns3")),
    MLSel(L1(NameKey, "nsx")), ExSel(NameKey, "In", <<"ns1", "ns2">>), ExSel(NameKey, "NotIn", <<"ns1">>),
    ExSel("team", "NotIn", <<"x">>), ExSel("env", "Exists", <<>>), ExSel("env", "DoesNotExist", <<>>),
    [ml |-> L1("team", "x"), ex |-> <<[key |-> "env", op |-> "Exists", vals |-> <<>>]>>],
    [ml |-> L1("team", "y"), ex |-> <<[key |-> "env", op |-> "In", vals |-> <<"y", "z">>]>>],
    [ml |-> L1(NameKey, "ns1"), ex |-> <<[key |-> "team", op |-> "NotIn", vals |-> <<"x">>]>>] }

Blk(lo, hi) == [all |-> FALSE, lo |-> lo, hi |-> hi]
AllBlk == [all |-> TRUE, lo |-> 0, hi |-> 7]

PodPeer(nsNil, ns, podNil, pod) ==
  [kind |-> "pod", nsNil |-> nsNil, nsSel |-> ns, podNil |-> podNil, podSel |-> pod,
   cidr |-> Blk(1, 0), excepts |-> <<>>]
IPPeer(c, ex) ==
  [kind |-> "ip", nsNil |-> TRUE, nsSel |-> EmptySel, podNil |-> TRUE, podSel |-> EmptySel,
   cidr |-> c, excepts |-> ex]

IPPeerCat ==
  { IPPeer(AllBlk, <<>>), IPPeer(AllBlk, <<Blk(0, 3)>>), IPPeer(AllBlk, <<Blk(2, 3), Blk(6, 6)>>),
    IPPeer(Blk(0, 7), <<>>), IPPeer(Blk(0, 7), <<Blk(0, 7)>>), IPPeer(Blk(0, 3), <<>>),
    IPPeer(Blk(0, 3), <<Blk(0, 1), Blk(1, 1)>>), IPPeer(Blk(4, 7), <<Blk(4, 5)>>),
    IPPeer(Blk(4, 7), <<Blk(6, 7), Blk(4, 5)>>), IPPeer(Blk(2, 3), <<>>), IPPeer(Blk(5, 5), <<>>),
    IPPeer(Blk(5, 5), <<Blk(5, 5)>>), IPPeer(Blk(6, 7), <<Blk(7, 7)>>) }

PodPeerCat ==
  {PodPeer(TRUE, EmptySel, FALSE, s) : s \in PodSelCat}
  \cup {PodPeer(FALSE, s, TRUE, EmptySel) : s \in NsSelCat}
  \cup {PodPeer(FALSE, n, FALSE, p) :
          n \in {EmptySel, MLSel(L1("team", "x")), MLSel(L1(NameKey, "ns1")), ExSel("team", "NotIn", <<"x">>),
                 [ml |-> L1("team", "x"), ex |-> <<[key |-> "env", op |-> "Exists", vals |-> <<>>]>>],
                 [ml |-> L1("team", "y"), ex |-> <<[key |-> "env", op |-> "In", vals |-> <<"y", "z">>]>>]},
          p \in {EmptySel, MLSel(L1("app", "a")), MLSel(L1("tier", "b")), MLSel(L1("canary", "")), ExSel("app", "NotIn", <<"a">>),
                 ExSel("tier", "Exists", <<>>)}}

NPPort(protoNil, proto, kind, num, name, endNil, end) ==
  [protoNil |-> protoNil, proto |-> proto, kind |-> kind, num |-> num, name |-> name,
   endNil |-> endNil, end |-> end]
NumPort(protoNil, proto, lo)        == NPPort(protoNil, proto, "num", lo, "", TRUE, 0)
RngPort(protoNil, proto, lo, hi)    == NPPort(protoNil, proto, "num", lo, "", FALSE, hi)
NamePort(protoNil, proto, n)        == NPPort(protoNil, proto, "name", 0, n, TRUE, 0)
ProtoOnly(protoNil, proto)          == NPPort(protoNil, proto, "none", 0, "", TRUE, 0)

NumPortCat ==
  { ProtoOnly(TRUE, "TCP"), ProtoOnly(FALSE, "UDP"), ProtoOnly(FALSE, "SCTP"),
    NumPort(TRUE, "TCP", 2), NumPort(FALSE, "UDP", 2), NumPort(FALSE, "TCP", 4), NumPort(FALSE, "TCP", 1),
    RngPort(TRUE, "TCP", 1, 3), RngPort(FALSE, "TCP", 3, 5), RngPort(FALSE, "TCP", 1, 5),
    RngPort(FALSE, "SCTP", 4, 5), RngPort(FALSE, "UDP", 2, 2), RngPort(FALSE, "UDP", 5, 5) }
NamedPortCat ==
  { NamePort(TRUE, "TCP", "http"), NamePort(FALSE, "UDP", "http"), NamePort(FALSE, "UDP", "dns"),
    NamePort(FALSE, "TCP", "web"), NamePort(FALSE, "TCP", "nosuch") }

(* workloads the edits can add (namespace ns3 has no Namespace object)     *)
CP(n, pr, p) == [name |-> n, proto |-> pr, port |-> p]
WlCat ==
  { [ns |-> "ns1", labels |-> L1("app", "a"),              ports |-> <<CP("http", "TCP", 2)>>],
    [ns |-> "ns1", labels |-> L2("app", "b", "tier", "b"), ports |-> <<CP("dns", "UDP", 4), CP("", "TCP", 4)>>],
    [ns |-> "ns2", labels |-> L1("app", "a"),              ports |-> <<>>],
    [ns |-> "ns2", labels |-> L2("app", "a", "tier", "b"), ports |-> <<CP("http", "UDP", 2), CP("web", "TCP", 4)>>],
    [ns |-> "ns3", labels |-> NoLabels,                    ports |-> <<CP("http", "TCP", 4)>>],
    [ns |-> "ns1", labels |-> L2("app", "a", "tier", "b"), ports |-> <<CP("http", "TCP", 2), CP("web", "TCP", 4)>>],
    [ns |-> "ns2", labels |-> L1("tier", "b"),             ports |-> <<CP("web", "TCP", 2), CP("", "TCP", 4), CP("dns", "UDP", 4)>>],
    [ns |-> "ns1", labels |-> L2("app", "a", "canary", ""), ports |-> <<CP("http", "TCP", 2)>>],
    [ns |-> "ns2", labels |-> L1("canary", ""),            ports |-> <<>>],
    [ns |-> "ns3", labels |-> L1("tier", "c"),             ports |-> <<CP("web", "TCP", 2), CP("dns", "UDP", 2)>>] }

ControllerKinds == {"Deployment", "ReplicaSet", "StatefulSet", "DaemonSet", "Job", "CronJob", "ReplicationController"}
(* expressions of one pod template (C17)                                   *)
ExprCat ==
  {[kind |-> k, expr |-> "controller", replicas |-> r, podCount |-> 1] :
      k \in ControllerKinds, r \in {-1, 0, 1, 2, 5}}
  \cup {[kind |-> k, expr |-> "pods", replicas |-> -1, podCount |-> n] :
      k \in {"ReplicaSet", "StatefulSet", "Job", "DaemonSet"}, n \in 1..3}
  \cup {[kind |-> "Pod", expr |-> "bare", replicas |-> -1, podCount |-> 1]}

MkWl(t, name, e) ==
  [ns |-> t.ns, name |-> name, labels |-> t.labels, ports |-> t.ports,
   kind |-> e.kind, expr |-> e.expr, replicas |-> e.replicas, podCount |-> e.podCount]

WlName(i) == "w" \o ToString(i)
NPName(i) == "np" \o ToString(i)

NsCat ==
  { <<[name |-> "ns1", hasObject |-> TRUE,  labels |-> L1("team", "x")],
      [name |-> "ns2", hasObject |-> TRUE,  labels |-> L2("team", "y", "env", "x")],
      [name |-> "ns3", hasObject |-> FALSE, labels |-> NoLabels]>>,
    <<[name |-> "ns1", hasObject |-> FALSE, labels |-> NoLabels],
      [name |-> "ns2", hasObject |-> TRUE,  labels |-> L1("team", "x")],
      [name |-> "ns3", hasObject |-> FALSE, labels |-> NoLabels]>> }

NoBanp == [nil |-> TRUE, name |-> "default",
           subject |-> [kind |-> "namespaces", nsSel |-> EmptySel, podSel |-> EmptySel],
           ingress |-> <<>>, egress |-> <<>>]

BaseWorld(nss, hasOut) ==
  [M |-> 5, pointPorts |-> <<2, 4>>, nAddr |-> 8, hasOut |-> hasOut,
   namespaces |-> nss, workloads |-> <<>>, netpols |-> <<>>, anps |-> <<>>, banp |-> NoBanp,
   services |-> <<>>, ingresses |-> <<>>, routes |-> <<>>]

---------------------------------------------------------------------------
Init == /\ \E nss \in NsCat, ho \in BOOLEAN : world = BaseWorld(nss, ho)
        /\ label = "Init" /\ args = <<>> /\ step = 0
        /\ hist = IF Sim THEN <<[label |-> "Init", args |-> <<>>, world |-> world]>> ELSE <<>>

Step(lbl, a, w2) == /\ step < MaxSteps
                    /\ world' = w2 /\ label' = lbl /\ args' = a /\ step' = step + 1
                    /\ hist' = IF Sim THEN Append(hist, [label |-> lbl, args |-> a, world |-> w2]) ELSE hist

(* ---- workloads ---- *)
AddWorkload ==
  /\ Len(world.workloads) < MaxWl
  /\ \E t \in Pick(WlCat), e \in Pick(ExprCat) :
       LET i == Len(world.workloads) + 1
       IN Step("AddWorkload", <<i>>, [world EXCEPT !.workloads = Append(@, MkWl(t, WlName(i), e))])

(* the same application deployed in a second namespace: same workload name, kind, labels and ports *)
AddTwinWorkload ==
  /\ Len(world.workloads) < MaxWl /\ Len(world.workloads) > 0
  /\ \E i \in Pick(DOMAIN world.workloads) :
       \E ns \in Pick({world.namespaces[k].name : k \in DOMAIN world.namespaces} \ {world.workloads[i].ns}) :
         /\ ~\E j \in DOMAIN world.workloads : world.workloads[j].ns = ns /\ world.workloads[j].name = world.workloads[i].name
         /\ Step("AddTwinWorkload", <<i>>, [world EXCEPT !.workloads = Append(@, [world.workloads[i] EXCEPT !.ns = ns])])

(* the twin together with everything that exposes the original: the Services, Ingresses and Routes of the original's       *)
(* namespace are copied to the twin's namespace (same names), unless an object of that name exists there already            *)
CopyTo(objs, from, to) ==
  LET src == SelectSeq(objs, LAMBDA o : o.ns = from /\ ~\E k \in DOMAIN objs : objs[k].ns = to /\ objs[k].name = o.name)
  IN objs \o [k \in DOMAIN src |-> [src[k] EXCEPT !.ns = to]]
AddTwinWithExposure ==
  /\ Ingr /\ Len(world.workloads) < MaxWl /\ Len(world.workloads) > 0 /\ Len(world.services) > 0 /\ Len(world.services) <= 2
  /\ \E i \in Pick({j \in DOMAIN world.workloads : \E k \in DOMAIN world.services : world.services[k].ns = world.workloads[j].ns}) :
       \E ns \in Pick({world.namespaces[k].name : k \in DOMAIN world.namespaces} \ {world.workloads[i].ns}) :
         /\ ~\E j \in DOMAIN world.workloads : world.workloads[j].ns = ns /\ world.workloads[j].name = world.workloads[i].name
         /\ Step("AddTwinWorkload", <<i>>,
                 [world EXCEPT !.workloads = Append(@, [world.workloads[i] EXCEPT !.ns = ns]),
                               !.services = CopyTo(@, world.workloads[i].ns, ns),
                               !.ingresses = CopyTo(@, world.workloads[i].ns, ns),
                               !.routes = CopyTo(@, world.workloads[i].ns, ns)])

(* a second version of an application: same namespace, same labels, another name, the named container ports RENUMBERED       *)
(* (2 <-> 4): whatever selects the first by labels selects both, and the same port name means another number                *)
Renumber(ps) == [k \in DOMAIN ps |-> IF ps[k].name = "" THEN ps[k] ELSE [ps[k] EXCEPT !.port = IF @ = 2 THEN 4 ELSE 2]]
AddSecondVersion ==
  /\ Len(world.workloads) < MaxWl /\ Len(world.workloads) > 0
  /\ \E i \in Pick({j \in DOMAIN world.workloads : \E k \in DOMAIN world.workloads[j].ports : world.workloads[j].ports[k].name # ""}) :
       LET n == Len(world.workloads) + 1
       IN Step("AddSecondVersion", <<i>>,
               [world EXCEPT !.workloads = Append(@, [world.workloads[i] EXCEPT !.name = WlName(n) \o "v2", !.ports = Renumber(@)])])

(* a bare Pod that carries the NAME of an existing controller workload of its namespace (another kind, other labels): two     *)
(* distinct workloads -- ns/x[Pod] and ns/x[Deployment] -- whose pod names (x and x-1, x-2) do not collide                  *)
AddPodNamedLikeController ==
  /\ Len(world.workloads) < MaxWl /\ Len(world.workloads) > 0
  /\ \E i \in Pick({j \in DOMAIN world.workloads : world.workloads[j].expr = "controller"}) : \E t \in Pick(WlCat) :
       /\ ~\E j \in DOMAIN world.workloads : j # i /\ world.workloads[j].ns = world.workloads[i].ns /\ world.workloads[j].name = world.workloads[i].name
       /\ t.labels # world.workloads[i].labels
       /\ Step("AddPodNamedLikeController", <<i>>,
               [world EXCEPT !.workloads = Append(@, [ns |-> world.workloads[i].ns, name |-> world.workloads[i].name, labels |-> t.labels,
                                                     ports |-> t.ports, kind |-> "Pod", expr |-> "bare", replicas |-> -1, podCount |-> 1])])

(* a workload of the same kind whose name EXTENDS the name of an existing one by a suffix (cart / cart-api), inserted before  *)
(* or after it: the synthetic pod names (cart-1, cart-api-1) never collide and neither workload may shadow the other         *)
InsertAt(s, k, x) == SubSeq(s, 1, k - 1) \o <<x>> \o SubSeq(s, k, Len(s))
AddSuffixNamedWorkload ==
  /\ Len(world.workloads) < MaxWl /\ Len(world.workloads) > 0 /\ Rarely(2)
  /\ \E i \in Pick({j \in DOMAIN world.workloads : world.workloads[j].expr = "controller" /\ world.workloads[j].name # "ingress-controller"}) :
     \E t \in Pick(WlCat), before \in Pick(BOOLEAN) :
       LET nm == world.workloads[i].name \o "-api"
           wl == [world.workloads[i] EXCEPT !.name = nm, !.labels = t.labels, !.ports = t.ports]
       IN /\ ~\E j \in DOMAIN world.workloads : world.workloads[j].ns = world.workloads[i].ns /\ world.workloads[j].name = nm
          /\ Step("AddSuffixNamedWorkload", <<i>>,
                  [world EXCEPT !.workloads = IF before THEN InsertAt(@, i, wl) ELSE Append(@, wl)])

(* workload names are DNS-1123 subdomains, not labels: a dot is legal (web.v2) *)
NameWithDot ==
  /\ Len(world.workloads) > 0 /\ Rarely(3)
  /\ \E i \in Pick({j \in DOMAIN world.workloads : world.workloads[j].name # "ingress-controller"}) :
       LET nm == world.workloads[i].name \o ".v2"
       IN /\ ~\E j \in DOMAIN world.workloads : world.workloads[j].ns = world.workloads[i].ns /\ world.workloads[j].name = nm
          /\ Len(world.workloads[i].name) < 6
          /\ Step("NameWithDot", <<i>>, [world EXCEPT !.workloads[i].name = nm])

(* a workload that happens to carry the name the tool uses for its ingress-controller placeholder pod *)
NameLikePlaceholder ==
  /\ Len(world.workloads) > 0 /\ Rarely(2)
  /\ \E i \in Pick(DOMAIN world.workloads) :
       /\ ~\E j \in DOMAIN world.workloads : world.workloads[j].ns = world.workloads[i].ns /\ world.workloads[j].name = "ingress-controller"
       /\ Step("NameLikePlaceholder", <<i>>, [world EXCEPT !.workloads[i].name = "ingress-controller"])

(* C17: same pod template, different controller kind / replicas / bare pods with one owner *)
ReExpressWorkload ==
  \E i \in Pick(DOMAIN world.workloads) :
    \E e \in Pick(ExprCat \ {[kind |-> world.workloads[i].kind, expr |-> world.workloads[i].expr,
                              replicas |-> world.workloads[i].replicas, podCount |-> world.workloads[i].podCount]}) :
      /\ Len(world.workloads) > 0
      \* (a workload that shares its name with another workload of its namespace stays what it is: two CONTROLLERS of one
      \*  name are the known finding D11 -- synthetic pod names collide -- which only the np-collide profile of C17 explores)
      /\ ~\E j \in DOMAIN world.workloads : j # i /\ world.workloads[j].ns = world.workloads[i].ns /\ world.workloads[j].name = world.workloads[i].name
      /\ Step("ReExpressWorkload", <<i>>,
              [world EXCEPT !.workloads[i] = MkWl(@, @.name, e)])

RemoveWorkload ==
  /\ Len(world.workloads) > 1 /\ Rarely(3)
  /\ Step("RemoveWorkload", <<Len(world.workloads)>>, [world EXCEPT !.workloads = SubSeq(@, 1, Len(@) - 1)])

RelabelNamespace ==
  \E i \in Pick(DOMAIN world.namespaces) :
    \E ls \in Pick({NoLabels, L1("team", "x"), L1("team", "y"), L2("team", "x", "env", "y")}) :
      /\ world.namespaces[i].hasObject /\ ls # world.namespaces[i].labels
      /\ Step("RelabelNamespace", <<i>>, [world EXCEPT !.namespaces[i].labels = ls])

(* ---- NetworkPolicies ---- *)
TypesCat == {<<TRUE, <<>>>>, <<FALSE, <<"Ingress">>>>, <<FALSE, <<"Egress">>>>,
             <<FALSE, <<"Ingress", "Egress">>>>, <<FALSE, <<"Egress", "Ingress">>>>}

AddPolicy ==
  /\ Len(world.netpols) < MaxNP
  /\ \E ns \in Pick({"ns1", "ns2", "ns3"}), ps \in Pick(PodSelCat), ty \in Pick(TypesCat) :
       LET i == Len(world.netpols) + 1
           np == [ns |-> ns, name |-> NPName(i), podSel |-> ps, typesNil |-> ty[1], types |-> ty[2],
                  ingress |-> <<>>, egress |-> <<>>]
       IN Step("AddPolicy", <<i>>, [world EXCEPT !.netpols = Append(@, np)])

(* policies written FOR an existing workload (selected by its own labels)                                                   *)
SelOf(wl) == IF DOMAIN wl.labels = {} THEN EmptySel ELSE MLSel(wl.labels)
NewPolicyFor(wl, ing) ==
  [ns |-> wl.ns, name |-> NPName(Len(world.netpols) + 1), podSel |-> SelOf(wl), typesNil |-> TRUE, types |-> <<>>,
   ingress |-> ing, egress |-> <<>>]
(* ... opening one of its NAMED container ports, whichever it is (also a later declaration of a port number that an earlier *)
(* container port already uses with another protocol)                                                                        *)
AddPolicyForNamedPort ==
  /\ Len(world.netpols) < MaxNP /\ Len(world.workloads) > 0
  /\ \E i \in Pick({j \in DOMAIN world.workloads : \E k \in DOMAIN world.workloads[j].ports : world.workloads[j].ports[k].name # ""}) :
       LET wl == world.workloads[i]
       IN \E k \in Pick({k \in DOMAIN wl.ports : wl.ports[k].name # ""}) :
            Step("AddPolicy", <<Len(world.netpols) + 1>>,
                 [world EXCEPT !.netpols = Append(@, NewPolicyFor(wl, <<[peers |-> <<>>,
                                                                        ports |-> <<NamePort(FALSE, wl.ports[k].proto, wl.ports[k].name)>>]>>))])
(* ... opening one HALF of everything: two such policies on one workload add up to all connections, which must then be      *)
(* reported as such (the union of connection sets that completes a protocol without adding one)                              *)
HalfOfAll(h) == IF h = 1 THEN <<RngPort(FALSE, "TCP", 1, 3), ProtoOnly(FALSE, "UDP"), ProtoOnly(FALSE, "SCTP")>>
                ELSE <<RngPort(FALSE, "TCP", 4, 5), ProtoOnly(FALSE, "UDP"), ProtoOnly(FALSE, "SCTP")>>
AddHalfPolicy ==
  /\ Len(world.netpols) < MaxNP /\ Len(world.workloads) > 0
  /\ \E i \in Pick(DOMAIN world.workloads), h \in Pick({1, 2}) :
       Step("AddPolicy", <<Len(world.netpols) + 1>>,
            [world EXCEPT !.netpols = Append(@, NewPolicyFor(world.workloads[i], <<[peers |-> <<>>, ports |-> HalfOfAll(h)]>>))])

(* two DIFFERENT pod selectors whose requirement strings concatenate to the same text ("app" + "tier=b" / "apptier=b"): *)
(* anything that identifies a selector by the concatenation of its requirements takes them for one                        *)
SelConcat1 == [ml |-> L1("tier", "b"), ex |-> <<[key |-> "app", op |-> "Exists", vals |-> <<>>]>>]
SelConcat2 == MLSel(L1("apptier", "b"))
PeerChoices(dir) == {<<>>} \cup {<<p>> : p \in PodPeerCat \cup IPPeerCat}
                    \cup {<<PodPeer(TRUE, EmptySel, FALSE, SelConcat1), PodPeer(TRUE, EmptySel, FALSE, SelConcat2)>>,
                          <<PodPeer(TRUE, EmptySel, FALSE, SelConcat2), PodPeer(TRUE, EmptySel, FALSE, SelConcat1)>>,
                          <<PodPeer(FALSE, EmptySel, FALSE, SelConcat2), PodPeer(FALSE, EmptySel, FALSE, SelConcat1)>>}
PortChoices(dir, peers) ==
  \* named ports on an egress rule that may select addresses lead to the documented fatal error
  {<<>>} \cup {<<p>> : p \in NumPortCat}
         \cup (IF dir = "Egress" /\ (peers = <<>> \/ peers[1].kind = "ip") THEN {}
               ELSE {<<p>> : p \in NamedPortCat})

WithRules(np, dir, rs) == IF dir = "Egress" THEN [np EXCEPT !.egress = rs] ELSE [np EXCEPT !.ingress = rs]

AddRule ==
  \E i \in Pick(DOMAIN world.netpols), dir \in Pick({"Ingress", "Egress"}) :
    \E peers \in Pick(PeerChoices(dir)) : \E ports \in Pick(PortChoices(dir, peers)) :
      /\ Len(world.netpols) > 0
      /\ Len(NPRules(world.netpols[i], dir)) < MaxRules
      /\ Step("AddRule", <<i, dir>>,
              [world EXCEPT !.netpols[i] =
                  WithRules(@, dir, Append(NPRules(@, dir), [peers |-> peers, ports |-> ports]))])

(* a rule put IN FRONT of the rules of a policy: it selects the peers of one of them and lists only a named port that (most)   *)
(* destinations do not declare, or declare for another protocol - it contributes nothing, and like every added rule it may     *)
(* never remove anything (the rules after it still count)                                                                     *)
PrependDeadNamedRule ==
  \E i \in Pick(DOMAIN world.netpols), dir \in Pick({"Ingress", "Egress"}) :
    /\ Len(world.netpols) > 0
    /\ LET rs == NPRules(world.netpols[i], dir)
           cands == {r \in DOMAIN rs : rs[r].peers # <<>> /\ \A k \in DOMAIN rs[r].peers : rs[r].peers[k].kind = "pod"}
       IN /\ Len(rs) < MaxRules /\ cands # {}
          /\ \E r \in Pick(cands), nm \in Pick({NamePort(FALSE, "TCP", "nosuch"), NamePort(FALSE, "SCTP", "http"), NamePort(TRUE, "TCP", "dns")}) :
               Step("AddRule", <<i, dir>>,
                    [world EXCEPT !.netpols[i] = WithRules(@, dir, <<[peers |-> rs[r].peers, ports |-> <<nm>>]>> \o rs)])

(* a further rule that names a CIDR the policy already uses, with another except list (the address space is then cut at the *)
(* boundaries of both occurrences); the edge is an AddRule edge: nothing may disappear                                        *)
RuleIPPeers(rs) == UNION {{rs[r].peers[k] : k \in {k \in DOMAIN rs[r].peers : rs[r].peers[k].kind = "ip"}} : r \in DOMAIN rs}
UsedIPPeers(np) == RuleIPPeers(NPRules(np, "Ingress")) \cup RuleIPPeers(NPRules(np, "Egress"))
AddCidrAgain ==
  \E i \in Pick(DOMAIN world.netpols), dir \in Pick({"Ingress", "Egress"}) :
    /\ Len(world.netpols) > 0
    /\ Len(NPRules(world.netpols[i], dir)) < MaxRules
    /\ \E q \in Pick({q \in IPPeerCat : \E p \in UsedIPPeers(world.netpols[i]) : q.cidr = p.cidr /\ q.excepts # p.excepts}) :
         \E ports \in Pick({<<>>, <<NumPort(TRUE, "TCP", 2)>>, <<RngPort(FALSE, "TCP", 1, 5)>>, <<ProtoOnly(FALSE, "UDP")>>}) :
           Step("AddRule", <<i, dir>>,
                [world EXCEPT !.netpols[i] =
                    WithRules(@, dir, Append(NPRules(@, dir), [peers |-> <<q>>, ports |-> ports]))])

(* a rule of a policy of namespace X that selects pods by labels P WITHOUT a namespaceSelector, and a policy of another        *)
(* namespace Y that selects the same pods by naming X explicitly (name label) with the same P: two spellings of one peer set *)
AddCrossNamespaceSpelling ==
  /\ Len(world.netpols) < MaxNP
  /\ \E i \in Pick(DOMAIN world.netpols), dir \in Pick({"Ingress", "Egress"}) :
       LET rs == NPRules(world.netpols[i], dir)
           cands == {<<r, k>> \in (1..MaxRules) \X (1..3) :
                       r \in DOMAIN rs /\ k \in DOMAIN rs[r].peers /\ rs[r].peers[k].kind = "pod" /\ rs[r].peers[k].nsNil /\ ~rs[r].peers[k].podNil}
       IN /\ cands # {}
          /\ \E c \in Pick(cands), ns \in Pick({"ns1", "ns2", "ns3"} \ {world.netpols[i].ns}), d2 \in Pick({"Ingress", "Egress"}) :
               LET p == rs[c[1]].peers[c[2]]
                   q == PodPeer(FALSE, MLSel(L1(NameKey, world.netpols[i].ns)), FALSE, p.podSel)
                   n == Len(world.netpols) + 1
                   rule == [peers |-> <<q>>, ports |-> <<NumPort(FALSE, "TCP", 4)>>]
                   np == [ns |-> ns, name |-> NPName(n), podSel |-> EmptySel, typesNil |-> FALSE, types |-> <<d2>>,
                          ingress |-> IF d2 = "Ingress" THEN <<rule>> ELSE <<>>, egress |-> IF d2 = "Egress" THEN <<rule>> ELSE <<>>]
               IN Step("AddPolicy", <<n>>, [world EXCEPT !.netpols = Append(@, np)])

(* (policy, direction) pairs that have a last rule satisfying P *)
Dirs == {"Ingress", "Egress"}
LastRule(i, dir) == LET rs == NPRules(world.netpols[i], dir) IN rs[Len(rs)]
HasRules(i, dir) == Len(NPRules(world.netpols[i], dir)) > 0
Where(P(_, _)) == {id \in (DOMAIN world.netpols) \X Dirs : HasRules(id[1], id[2]) /\ P(id[1], id[2])}

(* add a second peer / port to the last rule of a direction *)
AddPeer ==
  \E id \in Pick(Where(LAMBDA i, d : Len(LastRule(i, d).peers) \in 1..2)) :
    \E p \in Pick(PodPeerCat \cup IPPeerCat) :
      /\ LET i == id[1]
             dir == id[2]
             rs == NPRules(world.netpols[i], dir)
         IN /\ Len(rs) > 0 /\ Len(rs[Len(rs)].peers) \in 1..2
            /\ (p.kind = "ip" /\ dir = "Egress" => \A j \in DOMAIN rs[Len(rs)].ports : rs[Len(rs)].ports[j].kind # "name")
            /\ Step("AddPeer", <<i, dir>>,
                    [world EXCEPT !.netpols[i] =
                        WithRules(@, dir, [rs EXCEPT ![Len(rs)].peers = Append(@, p)])])

AddPort ==
  \E id \in Pick(Where(LAMBDA i, d : Len(LastRule(i, d).ports) \in 1..2)) :
    /\ LET i == id[1]
           dir == id[2]
           rs == NPRules(world.netpols[i], dir)
       IN /\ Len(rs) > 0 /\ Len(rs[Len(rs)].ports) \in 1..2
          /\ \E p \in Pick({q[1] : q \in PortChoices(dir, rs[Len(rs)].peers) \ {<<>>}}) :
               /\ (p.kind = "name" /\ dir = "Egress" =>
                      \A j \in DOMAIN rs[Len(rs)].peers : rs[Len(rs)].peers[j].kind # "ip")
               /\ Step("AddPort", <<i, dir>>,
                       [world EXCEPT !.netpols[i] =
                           WithRules(@, dir, [rs EXCEPT ![Len(rs)].ports = Append(@, p)])])

SetPolicyTypes ==
  \E i \in Pick(DOMAIN world.netpols), ty \in Pick(TypesCat) :
    /\ Len(world.netpols) > 0
    /\ <<world.netpols[i].typesNil, world.netpols[i].types>> # ty
    /\ Step("SetPolicyTypes", <<i>>, [world EXCEPT !.netpols[i].typesNil = ty[1], !.netpols[i].types = ty[2]])

RemovePolicy ==
  /\ Len(world.netpols) > 0 /\ Rarely(4)
  /\ Step("RemovePolicy", <<Len(world.netpols)>>,
          [world EXCEPT !.netpols = SubSeq(@, 1, Len(@) - 1)])

(* ---- C14: equivalent re-spellings (must leave every observation unchanged) ---- *)
MLAsIn(s) ==
  LET ks == DOMAIN s.ml
      RECURSIVE build(_)
      build(S) == IF S = {} THEN <<>>
                  ELSE LET k == CHOOSE k \in S : TRUE
                       IN <<[key |-> k, op |-> "In", vals |-> <<s.ml[k]>>]>> \o build(S \ {k})
  IN [ml |-> NoLabels, ex |-> s.ex \o build(ks)]

RespellPodSelAsIn ==
  \E i \in Pick(DOMAIN world.netpols) :
    /\ Len(world.netpols) > 0 /\ DOMAIN world.netpols[i].podSel.ml # {}
    /\ Step("RespellPodSelAsIn", <<i>>, [world EXCEPT !.netpols[i].podSel = MLAsIn(@)])

(* in the last rule of (i, dir): the first peer's selectors, matchLabels -> single-value In *)
RespellPeerSelAsIn ==
  \E id \in Pick(Where(LAMBDA i, d : /\ Len(LastRule(i, d).peers) > 0
                                      /\ LastRule(i, d).peers[1].kind = "pod"
                                      /\ (DOMAIN LastRule(i, d).peers[1].nsSel.ml # {}
                                          \/ DOMAIN LastRule(i, d).peers[1].podSel.ml # {}))) :
    /\ LET i == id[1]
           dir == id[2]
           rs == NPRules(world.netpols[i], dir)
       IN /\ Len(rs) > 0 /\ Len(rs[Len(rs)].peers) > 0
          /\ LET p == rs[Len(rs)].peers[1]
             IN /\ p.kind = "pod" /\ (DOMAIN p.nsSel.ml # {} \/ DOMAIN p.podSel.ml # {})
                /\ Step("RespellPeerSelAsIn", <<i, dir>>,
                        [world EXCEPT !.netpols[i] =
                           WithRules(@, dir, [rs EXCEPT ![Len(rs)].peers[1] =
                               [p EXCEPT !.nsSel = MLAsIn(@), !.podSel = MLAsIn(@)]])])

(* one port range -> two adjacent ranges (first port of the last rule) *)
SplitRange ==
  \E id \in Pick(Where(LAMBDA i, d : /\ Len(LastRule(i, d).ports) \in 1..2
                                      /\ LET p == LastRule(i, d).ports[1]
                                         IN \/ p.kind = "none"
                                            \/ (p.kind = "num" /\ ~p.endNil /\ p.num < p.end))) :
    /\ LET i == id[1]
           dir == id[2]
           rs == NPRules(world.netpols[i], dir)
       IN /\ Len(rs) > 0 /\ Len(rs[Len(rs)].ports) \in 1..2
          /\ LET p == rs[Len(rs)].ports[1]
                 lo == IF p.kind = "none" THEN 1 ELSE p.num
                 hi == IF p.kind = "none" THEN world.M ELSE (IF p.endNil THEN p.num ELSE p.end)
             IN /\ p.kind \in {"num", "none"} /\ lo < hi
                /\ \E m \in Pick(lo..(hi - 1)) :
                     Step("SplitRange", <<i, dir>>,
                          [world EXCEPT !.netpols[i] =
                             WithRules(@, dir, [rs EXCEPT ![Len(rs)].ports =
                                <<RngPort(p.protoNil, p.proto, lo, m), RngPort(p.protoNil, p.proto, m + 1, hi)>>
                                \o Tail(@)])])

(* a CIDR (without excepts) -> its two halves (first peer of the last rule) *)
SplitCidr ==
  \E id \in Pick(Where(LAMBDA i, d : /\ Len(LastRule(i, d).peers) \in 1..2
                                      /\ LET p == LastRule(i, d).peers[1]
                                         IN p.kind = "ip" /\ ~p.cidr.all /\ p.cidr.lo < p.cidr.hi)) :
    /\ LET i == id[1]
           dir == id[2]
           rs == NPRules(world.netpols[i], dir)
       IN /\ Len(rs) > 0 /\ Len(rs[Len(rs)].peers) \in 1..2
          /\ LET p == rs[Len(rs)].peers[1]
             IN /\ p.kind = "ip" /\ ~p.cidr.all /\ p.cidr.lo < p.cidr.hi
                /\ LET mid == (p.cidr.lo + p.cidr.hi + 1) \div 2
                       inHalf(e, lo, hi) == ~e.all /\ lo <= e.lo /\ e.hi <= hi
                       sub(lo, hi) == SelectSeq(p.excepts, LAMBDA e : inHalf(e, lo, hi))
                   IN \* only when every except lies inside one half (otherwise it is not a re-spelling)
                      /\ \A j \in DOMAIN p.excepts :
                            inHalf(p.excepts[j], p.cidr.lo, mid - 1) \/ inHalf(p.excepts[j], mid, p.cidr.hi)
                      /\ Step("SplitCidr", <<i, dir>>,
                              [world EXCEPT !.netpols[i] =
                                 WithRules(@, dir, [rs EXCEPT ![Len(rs)].peers =
                                    <<IPPeer(Blk(p.cidr.lo, mid - 1), sub(p.cidr.lo, mid - 1)),
                                      IPPeer(Blk(mid, p.cidr.hi), sub(mid, p.cidr.hi))>> \o Tail(@)])])

(* not a re-spelling: the first peer of the last rule moves to another block, the ports stay *)
MoveCidr ==
  \E id \in Pick(Where(LAMBDA i, d : /\ Len(LastRule(i, d).peers) \in 1..3
                                      /\ LastRule(i, d).peers[1].kind = "ip")) :
    \E b \in Pick({Blk(0, 1), Blk(2, 3), Blk(4, 5), Blk(6, 7), Blk(0, 3), Blk(4, 7), Blk(2, 2), Blk(3, 3), Blk(5, 5)}) :
      /\ LET i == id[1]
             dir == id[2]
             rs == NPRules(world.netpols[i], dir)
         IN /\ rs[Len(rs)].peers[1].cidr # b
            /\ Step("MoveCidr", <<i, dir>>,
                    [world EXCEPT !.netpols[i] = WithRules(@, dir, [rs EXCEPT ![Len(rs)].peers[1] = IPPeer(b, <<>>)])])

MoveCidrAgain == MoveCidr

RemoveRule ==
  \E id \in Pick(Where(LAMBDA i, d : TRUE)) :
    /\ Rarely(2)
    /\ LET i == id[1]
           dir == id[2]
           rs == NPRules(world.netpols[i], dir)
       IN Step("RemoveRule", <<i, dir>>, [world EXCEPT !.netpols[i] = WithRules(@, dir, SubSeq(rs, 1, Len(rs) - 1))])

(* one policy -> the same rules split over two policies with the same selector and the same *effective* types *)
SplitPolicy ==
  /\ Len(world.netpols) > 0 /\ Len(world.netpols) < MaxNP
  /\ \E i \in Pick(DOMAIN world.netpols) :
       LET np == world.netpols[i]
           ty == EffTypes(np)
           tys == IF ty = {"Ingress"} THEN <<"Ingress">> ELSE IF ty = {"Egress"} THEN <<"Egress">> ELSE <<"Ingress", "Egress">>
           k == Len(world.netpols) + 1
           a == [np EXCEPT !.typesNil = FALSE, !.types = tys,
                           !.ingress = IF Len(@) > 0 THEN <<Head(@)>> ELSE <<>>,
                           !.egress  = IF Len(@) > 0 THEN <<Head(@)>> ELSE <<>>]
           b == [np EXCEPT !.name = NPName(k), !.typesNil = FALSE, !.types = tys,
                           !.ingress = IF Len(@) > 0 THEN Tail(@) ELSE <<>>,
                           !.egress  = IF Len(@) > 0 THEN Tail(@) ELSE <<>>]
       IN Step("SplitPolicy", <<i, k>>, [world EXCEPT !.netpols = Append([@ EXCEPT ![i] = a], b)])

ExplicitPolicyTypes ==
  \E i \in Pick(DOMAIN world.netpols) :
    /\ Len(world.netpols) > 0 /\ world.netpols[i].typesNil
    /\ LET ty == EffTypes(world.netpols[i])
       IN Step("ExplicitPolicyTypes", <<i>>,
               [world EXCEPT !.netpols[i].typesNil = FALSE,
                             !.netpols[i].types = IF ty = {"Ingress"} THEN <<"Ingress">> ELSE <<"Ingress", "Egress">>])

AddRuleAgain == AddRule      \* listed twice: TLC's simulator picks uniformly among the disjuncts of Next
AddRuleOnceMore == AddRule
NPNext == AddRuleAgain \/ AddRuleOnceMore \/ PrependDeadNamedRule \/ AddCidrAgain \/ AddCrossNamespaceSpelling \/ AddPolicyForNamedPort \/ AddHalfPolicy \/ AddWorkload \/ AddTwinWorkload \/ AddTwinWithExposure \/ AddSecondVersion \/ AddPodNamedLikeController \/ AddSuffixNamedWorkload \/ NameWithDot \/ NameLikePlaceholder \/ RemoveWorkload \/ ReExpressWorkload \/ RelabelNamespace \/ AddPolicy \/ AddRule \/ AddPeer \/ AddPort
          \/ SetPolicyTypes \/ RemovePolicy \/ RespellPodSelAsIn \/ RespellPeerSelAsIn \/ SplitRange \/ SplitCidr
          \/ SplitPolicy \/ ExplicitPolicyTypes \/ MoveCidr \/ MoveCidrAgain \/ RemoveRule

---------------------------------------------------------------------------
(* ---- admin policies (C02) ---- *)
NsSubj(s) == [kind |-> "namespaces", nsSel |-> s, podSel |-> EmptySel]
PodSubj(n, p) == [kind |-> "pods", nsSel |-> n, podSel |-> p]
SubjCat ==
  {NsSubj(s) : s \in {EmptySel, MLSel(L1("team", "x")), MLSel(L1(NameKey, "ns1")), ExSel("team", "NotIn", <<"x">>),
                      MLSel(L1(NameKey, "ns3"))}}
  \cup {PodSubj(n, p) : n \in {EmptySel, MLSel(L1(NameKey, "ns1")), ExSel("env", "DoesNotExist", <<>>)},
                        p \in {EmptySel, MLSel(L1("app", "a")), ExSel("app", "NotIn", <<"a">>), ExSel("tier", "Exists", <<>>)}}

AP(kind, proto, lo, hi, name) == [kind |-> kind, proto |-> proto, lo |-> lo, hi |-> hi, name |-> name]
APortsCat ==
  { <<TRUE, <<>>>>,
    <<FALSE, <<AP("number", "TCP", 2, 2, "")>>>>, <<FALSE, <<AP("number", "UDP", 4, 4, "")>>>>,
    <<FALSE, <<AP("range", "TCP", 1, 3, "")>>>>, <<FALSE, <<AP("range", "TCP", 3, 5, "")>>>>,
    <<FALSE, <<AP("range", "TCP", 1, 5, ""), AP("range", "UDP", 1, 5, ""), AP("range", "SCTP", 1, 5, "")>>>>,
    <<FALSE, <<AP("range", "UDP", 2, 4, ""), AP("number", "TCP", 4, 4, "")>>>>,
    <<FALSE, <<AP("named", "TCP", 0, 0, "http")>>>>, <<FALSE, <<AP("named", "TCP", 0, 0, "dns")>>>>,
    <<FALSE, <<AP("named", "TCP", 0, 0, "web"), AP("range", "SCTP", 1, 2, "")>>>> }

ANPName(i) == "anp" \o ToString(i)
PrioCat == {0, 1, 7, 50, 999, 1000}

AddANP ==
  /\ Len(world.anps) < MaxANP
  /\ \E s \in Pick(SubjCat), pr \in Pick(PrioCat \ {world.anps[j].priority : j \in DOMAIN world.anps}) :
       LET i == Len(world.anps) + 1
       IN Step("AddANP", <<i>>,
               [world EXCEPT !.anps = Append(@, [name |-> ANPName(i), priority |-> pr, subject |-> s,
                                                 ingress |-> <<>>, egress |-> <<>>])])

WithARules(a, dir, rs) == IF dir = "Egress" THEN [a EXCEPT !.egress = rs] ELSE [a EXCEPT !.ingress = rs]

AddANPRule ==
  \E i \in Pick(DOMAIN world.anps), dir \in Pick({"Ingress", "Egress"}) :
    \E act \in Pick({"Allow", "Deny", "Pass"}), pe \in Pick(SubjCat), po \in Pick(APortsCat) :
      /\ Len(world.anps) > 0 /\ Len(ARules(world.anps[i], dir)) < MaxRules
      /\ LET rs == ARules(world.anps[i], dir)
             r == [name |-> "r" \o ToString(Len(rs) + 1), action |-> act, peers |-> <<pe>>,
                   portsNil |-> po[1], ports |-> po[2]]
         IN Step("AddANPRule", <<i, dir>>, [world EXCEPT !.anps[i] = WithARules(@, dir, Append(rs, r))])

AddANPRulePeer ==
  \E i \in Pick(DOMAIN world.anps), dir \in Pick({"Ingress", "Egress"}) : \E pe \in Pick(SubjCat) :
    /\ Len(world.anps) > 0
    /\ LET rs == ARules(world.anps[i], dir)
       IN /\ Len(rs) > 0 /\ Len(rs[Len(rs)].peers) < 2
          /\ Step("AddANPRulePeer", <<i, dir>>,
                  [world EXCEPT !.anps[i] = WithARules(@, dir, [rs EXCEPT ![Len(rs)].peers = Append(@, pe)])])

SetBANP ==
  \E s \in Pick(SubjCat) :
    /\ world.banp.nil
    /\ Step("SetBANP", <<>>, [world EXCEPT !.banp = [NoBanp EXCEPT !.nil = FALSE, !.subject = s]])

AddBANPRule ==
  \E dir \in Pick({"Ingress", "Egress"}), act \in Pick({"Allow", "Deny"}), pe \in Pick(SubjCat), po \in Pick(APortsCat) :
    /\ ~world.banp.nil /\ Len(ARules(world.banp, dir)) < MaxRules
    /\ LET rs == ARules(world.banp, dir)
           r == [name |-> "b" \o ToString(Len(rs) + 1), action |-> act, peers |-> <<pe>>,
                 portsNil |-> po[1], ports |-> po[2]]
       IN Step("AddBANPRule", <<dir>>, [world EXCEPT !.banp = WithARules(@, dir, Append(rs, r))])

(* the priorities decide, not the document order: swap two ANPs in the list *)
SwapANPs ==
  /\ Len(world.anps) >= 2
  /\ \E i \in Pick(1..(Len(world.anps) - 1)) :
       Step("SwapANPs", <<i>>,
            [world EXCEPT !.anps = [@ EXCEPT ![i] = world.anps[i + 1], ![i + 1] = world.anps[i]]])

AddANPRuleAgain == AddANPRule
AddANPRuleOnceMore == AddANPRule
AddBANPRuleAgain == AddBANPRule
AdminNext == AddANP \/ AddANPRule \/ AddANPRuleAgain \/ AddANPRuleOnceMore \/ AddANPRulePeer \/ SetBANP \/ AddBANPRule \/ AddBANPRuleAgain \/ SwapANPs

---------------------------------------------------------------------------
(* ---- Services / Ingress / Routes (C10) ---- *)
OptNil == [nil |-> TRUE, kind |-> "num", num |-> 0, name |-> ""]
OptNum(n) == [nil |-> FALSE, kind |-> "num", num |-> n, name |-> ""]
OptName(s) == [nil |-> FALSE, kind |-> "name", num |-> 0, name |-> s]
SP(n, p, tp) == [name |-> n, port |-> p, targetPort |-> tp]

SvcPortsCat ==
  { <<SP("", 2, OptNil)>>, <<SP("p1", 2, OptNum(4))>>, <<SP("p1", 4, OptName("http"))>>,
    <<SP("p1", 2, OptNum(4)), SP("p2", 4, OptNum(2))>>,
    <<SP("p1", 2, OptName("web")), SP("p2", 4, OptName("dns"))>>,
    <<SP("a", 4, OptNil), SP("b", 2, OptName("nosuch"))>>,
    <<SP("p1", 2, OptName("http")), SP("p2", 4, OptName("web"))>>,
    <<SP("p1", 2, OptNil), SP("p2", 4, OptNil), SP("a", 1, OptNum(2))>>,
    \* mixed kinds of targetPort within one Service: named / numeric first, defaulted after, and the other way round
    <<SP("p1", 2, OptName("http")), SP("p2", 4, OptNil)>>, <<SP("p1", 4, OptName("web")), SP("p2", 2, OptNil)>>,
    <<SP("p1", 2, OptNum(4)), SP("p2", 4, OptNil)>>, <<SP("p1", 4, OptNil), SP("p2", 2, OptName("http"))>>,
    \* a service port whose NAME is the targetPort name of another port of the same service
    <<SP("web", 2, OptName("http")), SP("http", 4, OptNum(4))>>, <<SP("web", 4, OptName("http"))>>,
    <<SP("http", 2, OptName("web")), SP("web", 4, OptName("http"))>> }

SvcName(i) == "svc" \o ToString(i)

AddService ==
  /\ Len(world.services) < 3
  /\ \E ns \in Pick({"ns1", "ns2", "ns3"}), sel \in Pick({L1("app", "a"), L1("app", "b"), L1("tier", "b"), L1("tier", "c"), L2("app", "a", "tier", "b")}),
        ps \in Pick(SvcPortsCat), selNil \in Pick({FALSE, FALSE, FALSE, TRUE}) :
       LET i == Len(world.services) + 1
       IN Step("AddService", <<i>>,
               [world EXCEPT !.services = Append(@, [ns |-> ns, name |-> SvcName(i), selNil |-> selNil,
                                                    selector |-> sel, ports |-> ps])])

BackendPortCat == {OptNum(2), OptNum(4), OptName("p1"), OptName("p2"), OptName("a"), OptName("zz"), OptName("http"), OptName("web")}
SvcRefCat == {"svc1", "svc2", "svc3", "nosvc"}

(* backends of one Ingress: several of them may target one service through different ports *)
BackendListCat(s1, s2) ==
  { <<[svc |-> s1, port |-> OptName("p1")]>>, <<[svc |-> s1, port |-> OptNum(2)]>>, <<[svc |-> s1, port |-> OptNum(4)]>>,
    <<[svc |-> s1, port |-> OptName("p1")], [svc |-> s1, port |-> OptName("p2")]>>,
    <<[svc |-> s1, port |-> OptName("p2")], [svc |-> s1, port |-> OptName("p1")]>>,
    <<[svc |-> s1, port |-> OptNum(2)], [svc |-> s1, port |-> OptName("p2")]>>,
    <<[svc |-> s1, port |-> OptName("a")], [svc |-> s2, port |-> OptName("p1")]>>,
    <<[svc |-> s1, port |-> OptName("zz")], [svc |-> s1, port |-> OptNum(4)], [svc |-> s2, port |-> OptNum(2)]>>,
    \* a backend port NAME that is the name of a targetPort / container port, not (or not only) of a service port
    <<[svc |-> s1, port |-> OptName("http")]>>, <<[svc |-> s1, port |-> OptName("web")]>>,
    <<[svc |-> s1, port |-> OptName("http")], [svc |-> s1, port |-> OptName("p1")]>> }

AddIngress ==
  /\ Len(world.ingresses) < 2
  /\ \E ns \in Pick({"ns1", "ns2", "ns3"}), dn \in Pick(BOOLEAN), s1 \in Pick(SvcRefCat), s2 \in Pick(SvcRefCat) :
       \E bes \in Pick(BackendListCat(s1, s2)) :
         LET i == Len(world.ingresses) + 1
             rules == IF dn THEN bes ELSE Tail(bes)        \* without a default backend every backend is a rule
         IN /\ (~dn \/ Len(rules) > 0)
            /\ Step("AddIngress", <<i>>,
                    [world EXCEPT !.ingresses = Append(@, [ns |-> ns, name |-> "ing" \o ToString(i), defaultNil |-> dn,
                                                          default |-> Head(bes), rules |-> rules])])

AddRoute ==
  /\ Len(world.routes) < 2
  /\ \E ns \in Pick({"ns1", "ns2", "ns3"}), to \in Pick(SvcRefCat), alt \in Pick({<<>>, <<"svc2">>, <<"svc1", "svc3">>}),
        tp \in Pick({OptNil, OptNum(2), OptNum(4), OptName("p1"), OptName("http"), OptName("web")}) :
       LET i == Len(world.routes) + 1
       IN Step("AddRoute", <<i>>,
               [world EXCEPT !.routes = Append(@, [ns |-> ns, name |-> "rt" \o ToString(i), to |-> to,
                                                  alternates |-> alt, targetPort |-> tp])])

(* ---- the same three edits, derived from what already exists (so that the chain Ingress -> Service -> workload is   *)
(* ---- usually complete): a Service for an existing workload's TCP container ports, an Ingress / Route for an        *)
(* ---- existing Service, possibly with several backends of that one Service                                          *)
TcpPorts(wl) == SelectSeq(wl.ports, LAMBDA cp : cp.proto = "TCP")
DerivedSvcPorts(wl, v) ==
  [k \in 1..Len(TcpPorts(wl)) |->
     LET cp == TcpPorts(wl)[k]
         explicit == IF cp.name = "" THEN OptNum(cp.port) ELSE OptName(cp.name)
     IN SP("p" \o ToString(k), cp.port,
           CASE v = 1 -> OptNil
             [] v = 2 -> OptNum(cp.port)
             [] v = 3 -> explicit
             [] v = 4 -> IF k = 1 THEN explicit ELSE OptNil      \* mixed: explicit first, defaulted after
             [] OTHER -> IF k = 1 THEN OptNil ELSE explicit)]
(* service port NAMES that collide with targetPort names: the first port is called "alias" and targets the first container port *)
(* by name; the second port is CALLED like that container port and targets the second container port by number               *)
AliasedSvcPorts(wl) ==
  LET t == TcpPorts(wl)
  IN <<SP("alias", t[1].port, OptName(t[1].name)), SP(t[1].name, t[2].port, OptNum(t[2].port))>>

(* every NAMED container port, whatever its protocol, targeted by name: a name that belongs to a UDP / SCTP container port      *)
(* reaches no TCP container port - even when the workload also has a TCP container port with the same NUMBER (dns 53/UDP,      *)
(* dns-tcp 53/TCP)                                                                                                             *)
NamedPorts(wl) == SelectSeq(wl.ports, LAMBDA cp : cp.name # "")
NamedAnyProtoSvcPorts(wl) == [k \in 1..Len(NamedPorts(wl)) |-> SP("p" \o ToString(k), NamedPorts(wl)[k].port, OptName(NamedPorts(wl)[k].name))]
AddServiceFor ==
  /\ Len(world.services) < 3
  /\ \E i \in Pick({j \in DOMAIN world.workloads : Len(TcpPorts(world.workloads[j])) > 0 /\ DOMAIN world.workloads[j].labels # {}}),
        v \in Pick(1..8) :
       LET wl == world.workloads[i]
           n == Len(world.services) + 1
           aliased == v = 6 /\ Len(TcpPorts(wl)) >= 2 /\ TcpPorts(wl)[1].name # ""
           anyproto == v >= 7 /\ \E k \in DOMAIN wl.ports : wl.ports[k].name # "" /\ wl.ports[k].proto # "TCP"
           ps == IF aliased THEN AliasedSvcPorts(wl) ELSE IF anyproto THEN NamedAnyProtoSvcPorts(wl) ELSE DerivedSvcPorts(wl, v)
       IN \* (the API server rejects a Service that lists one port number twice for one protocol)
          /\ \A a, b \in DOMAIN ps : a # b => ps[a].port # ps[b].port
          /\ Step("AddService", <<n>>,
               [world EXCEPT !.services = Append(@, [ns |-> wl.ns, name |-> SvcName(n), selNil |-> FALSE,
                                                    selector |-> wl.labels, ports |-> ps])])

ByName(s, k) == [svc |-> s.name, port |-> OptName(s.ports[k].name)]
ByNum(s, k) == [svc |-> s.name, port |-> OptNum(s.ports[k].port)]
(* a backend port name that is the NAME of a targetPort of the service (whether or not a service port is called like that) *)
ByTargetName(s) == {<<[svc |-> s.name, port |-> OptName(s.ports[k].targetPort.name)]>> :
                      k \in {k \in DOMAIN s.ports : ~s.ports[k].targetPort.nil /\ s.ports[k].targetPort.kind = "name"}}
BackendsOf(s) ==
  {<<ByName(s, 1)>>, <<ByNum(s, 1)>>} \cup ByTargetName(s)
  \cup (IF Len(s.ports) >= 2
        THEN {<<ByName(s, 1), ByName(s, 2)>>, <<ByName(s, 2), ByName(s, 1)>>, <<ByNum(s, 1), ByName(s, 2)>>,
              <<ByName(s, 2)>>, <<ByNum(s, 2), ByNum(s, 1)>>, <<ByName(s, Len(s.ports))>>}
        ELSE {})

AddIngressFor ==
  /\ Len(world.ingresses) < 2
  /\ \E si \in Pick({j \in DOMAIN world.services : Len(world.services[j].ports) > 0 /\ world.services[j].ports[1].name # ""}),
        dn \in Pick(BOOLEAN) :
       \E bes \in Pick(BackendsOf(world.services[si])) :
         LET i == Len(world.ingresses) + 1
             rules == IF dn THEN bes ELSE Tail(bes)
         IN /\ (~dn \/ Len(rules) > 0)
            /\ Step("AddIngress", <<i>>,
                    [world EXCEPT !.ingresses = Append(@, [ns |-> world.services[si].ns, name |-> "ing" \o ToString(i), defaultNil |-> dn,
                                                          default |-> Head(bes), rules |-> rules])])

AddRouteFor ==
  /\ Len(world.routes) < 2
  /\ \E si \in Pick({j \in DOMAIN world.services : Len(world.services[j].ports) > 0}) :
       LET s == world.services[si]
           i == Len(world.routes) + 1
       IN \E tp \in Pick({OptNil, OptNum(s.ports[1].port), s.ports[Len(s.ports)].targetPort}
                         \cup (IF s.ports[1].name # "" THEN {OptName(s.ports[1].name)} ELSE {})) :
            Step("AddRoute", <<i>>,
                 [world EXCEPT !.routes = Append(@, [ns |-> s.ns, name |-> "rt" \o ToString(i), to |-> s.name,
                                                    alternates |-> <<>>, targetPort |-> tp])])

IngrNext == AddService \/ AddIngress \/ AddRoute \/ AddServiceFor \/ AddIngressFor \/ AddRouteFor

---------------------------------------------------------------------------
(* Emission.  Simulation: TLC 1.8 evaluates one randomly chosen action per step, so a behaviour is  *)
(* printed exactly once, when it is complete: Finish is the only action enabled at step = MaxSteps.  *)
(* BFS configs print every distinct state from the state constraint EmitState instead.               *)
Finish == /\ Sim /\ step = MaxSteps
          /\ PrintT("BEHAVIOUR " \o ToJson(hist))
          /\ step' = step + 1 /\ UNCHANGED <<world, label, args, hist>>

EmitState == PrintT("CASE " \o ToJson([label |-> label, args |-> args, step |-> step, world |-> world]))

Next == Finish \/ NPNext \/ (Admin /\ AdminNext) \/ (Ingr /\ IngrNext)

Spec == Init /\ [][Next]_vars
=============================================================================
