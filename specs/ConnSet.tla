------------------------------- MODULE ConnSet -------------------------------
(* Generator of operation sequences for machine M3 (see ConnSetModel.tla): random walks (Sim) or all      *)
(* sequences of MaxSteps operations over the reduced catalogue (Small, BFS; the sequence is in the state). *)
EXTENDS ConnSetModel, Json

CONSTANTS Sim, MaxSteps, Small

---------------------------------------------------------------------------
(* generator                                                               *)
VARIABLES regs, hist, step
vars == <<regs, hist, step>>

SpecCatFull ==
  {PortSpec(pr, 1, M, <<>>) : pr \in Protos}
  \cup {PortSpec(pr, 1, 1, <<>>) : pr \in Protos}
  \cup {PortSpec(pr, 2, M, <<>>) : pr \in {"TCP", "UDP"}}
  \cup {PortSpec("TCP", 2, 2, <<>>), PortSpec("TCP", 1, 2, <<"http">>), PortSpec("TCP", 1, 0, <<"http">>),
        PortSpec("UDP", 1, 0, <<"dns">>), PortSpec("TCP", 1, 0, <<"http", "dns">>), PortSpec("SCTP", M, M, <<>>),
        PortSpec("TCP", 3, M, <<>>)}
SpecCatSmall ==
  {PortSpec(pr, 1, M, <<>>) : pr \in Protos}
  \cup {PortSpec("TCP", 1, 1, <<>>), PortSpec("TCP", 2, M, <<>>), PortSpec("TCP", 1, 0, <<"http">>), PortSpec("UDP", 2, 2, <<>>)}
SpecCat == IF Small THEN SpecCatSmall ELSE SpecCatFull

Ops ==
  {[op |-> "Make", i |-> i, all |-> a] : i \in Regs, a \in BOOLEAN}
  \cup {[op |-> "Add", i |-> i, spec |-> s] : i \in Regs, s \in SpecCat}
  \cup {[op |-> x[1], i |-> x[2], j |-> x[3]] :
          x \in {y \in {"Union", "Subtract", "Intersect", "Copy"} \X Regs \X Regs : y[2] # y[3]}}
  \cup (IF Small THEN {} ELSE {[op |-> o, i |-> i, j |-> i] : o \in {"Union", "Subtract", "Intersect"}, i \in Regs})

Pick(S) == IF Sim /\ S # {} THEN {RandomElement(S)} ELSE S
(* simulation: bias towards Add so that registers are rarely trivial       *)
(* (takes the step as argument: TLC evaluates zero-arity constant-level definitions only once) *)
PickOp(n) == IF Sim /\ RandomElement(1..(3 + 0 * n)) = 1
             THEN {RandomElement({o \in Ops : o.op = "Add"})}
             ELSE Pick(Ops)

Init == regs = [i \in Regs |-> Empty] /\ hist = <<>> /\ step = 0

Do == /\ step < MaxSteps
      /\ \E o \in PickOp(step) :
           /\ regs' = Apply(regs, o)
           /\ hist' = Append(hist, o)
           /\ step' = step + 1

Finish == /\ step = MaxSteps
          /\ PrintT("OPS " \o ToJson(hist))
          /\ step' = step + 1 /\ UNCHANGED <<regs, hist>>

Next == Do \/ Finish
Spec == Init /\ [][Next]_vars

---------------------------------------------------------------------------
(* algebraic sanity of the reference itself (TLC-checked on every state)   *)
AlgebraOK ==
  \A i, j \in Regs :
    /\ SContained(regs[i], SUnion(regs[i], regs[j]))
    /\ SSubtract(regs[i], regs[j]).pts \cap regs[j].pts = {}
    /\ SUnion(SSubtract(regs[i], regs[j]), regs[j]).pts = SUnion(regs[i], regs[j]).pts
    /\ (SContained(regs[i], regs[j]) /\ SContained(regs[j], regs[i])) => SEqual(regs[i], regs[j])
    /\ SContained(regs[i], Full) /\ SContained(Empty, regs[i])
=============================================================================
