------------------------------- MODULE Mutation -------------------------------
(***************************************************************************)
(* C12: the space of structural mutations of valid manifests.  The field   *)
(* tree of every seed manifest (kind, path, type, leaf class) is read from *)
(* the schema file the harness derives from its seed directory (Pod with   *)
(* ownerReferences and host/pod IPs, the 7 controller kinds, Namespace,    *)
(* NetworkPolicy, AdminNetworkPolicy, BaselineAdminNetworkPolicy, Service, *)
(* Ingress, Route, List).  Mutation operators per field:                   *)
(*   drop, null, retype to each other JSON type, empty string, and         *)
(*   class-specific foreign values (IPv6 / garbage addresses and CIDRs,    *)
(*   negative / zero / huge numbers, unknown protocol / action / operator, *)
(*   reserved names, unknown kind);                                        *)
(* file-level operators: truncate, binary prefix, tab indentation, empty   *)
(* file, duplicate keys, separator noise, anchors, deep nesting.           *)
(* TLC enumerates every single mutation and (Pairs = TRUE) every pair of   *)
(* drop/null/foreign mutations within one document.  Every case must end   *)
(* with a result or an error -- never a panic or a timeout                 *)
(* (MutationTrace).                                                        *)
(***************************************************************************)
EXTENDS Integers, Sequences, FiniteSets, TLC, Json, IOUtils

CONSTANT Pairs

SchemaFile == IF "SCHEMA" \in DOMAIN IOEnv THEN IOEnv.SCHEMA ELSE "schema.ndjson"
Schema == ndJsonDeserialize(SchemaFile)
Rows == {i \in DOMAIN Schema : Schema[i].doc >= 0}
NFiles == LET h == Schema[1] IN IF h.doc = -1 THEN 6 ELSE 0

Types == {"string", "num", "bool", "list", "map"}

Foreign(class) ==
  CASE class = "cidr"   -> {"::/0", "2001:db8::/32", "10.0.0.0/33", "garbage", "10.0.0.0", "0.0.0.0/0", "300.1.1.1/8"}
    [] class = "ip"     -> {"fe80::1", "2001:db8::5", "garbage", "999.1.1.1", "10.0.0", "0.0.0.0", "255.255.255.255"}
    [] class = "port"   -> {"-1", "0", "65536", "2147483647", "-2147483648", "nosuchname", "99999999999999999999"}
    [] class = "prio"   -> {"-1", "1001", "2147483647", "0", "1000"}
    [] class = "count"  -> {"-1", "0", "2147483647"}
    [] class = "proto"  -> {"ICMP", "tcp", "", "SCTP"}
    [] class = "action" -> {"Log", "allow", "Pass", ""}
    [] class = "op"     -> {"Equals", "in", "Exists", "DoesNotExist", ""}
    [] class = "name"   -> {"ingress-controller", "representative-pod", "ingress-controller-ns", "default", "x-1", "UPPER_case!", "a/b"}
    [] class = "kindfield" -> {"Unknown", "pod", "List", "NetworkPolicyList", ""}
    [] OTHER -> {}

M(i, op, arg) == [doc |-> Schema[i].doc, path |-> Schema[i].path, op |-> op, arg |-> arg]

Singles(i) ==
  {M(i, "drop", ""), M(i, "null", "")}
  \cup {M(i, "retype", t) : t \in Types \ {Schema[i].type}}
  \cup (IF Schema[i].type = "string" THEN {M(i, "empty", "")} ELSE {})
  \cup {M(i, "foreign", v) : v \in Foreign(Schema[i].class)}

(* the reduced operator set used for pairs *)
PairOps(i) == {M(i, "drop", ""), M(i, "null", "")} \cup {M(i, "foreign", v) : v \in Foreign(Schema[i].class)}

FileOps == {"truncate", "binary", "tabs", "empty", "dupkeys", "sepnoise", "anchors", "deep"}

SingleCases == {[muts |-> <<m>>, file |-> 0, fop |-> ""] : m \in UNION {Singles(i) : i \in Rows}}
FileCases == {[muts |-> <<>>, file |-> f, fop |-> o] : f \in 1..NFiles, o \in FileOps}
                \cup {[muts |-> <<>>, file |-> 0, fop |-> ""]}
(* pairs: two different fields of one document, reduced operator set *)
PairCases ==
  IF ~Pairs THEN {}
  ELSE UNION {{[muts |-> <<a, b>>, file |-> 0, fop |-> ""] : a \in PairOps(ij[1]), b \in PairOps(ij[2])}
              : ij \in {x \in Rows \X Rows : x[1] < x[2] /\ Schema[x[1]].doc = Schema[x[2]].doc}}

VARIABLE c
Init == c \in SingleCases \cup FileCases \cup PairCases
Next == UNCHANGED c
Spec == Init /\ [][Next]_c
Emit == PrintT("CASE " \o ToJson(c))
=============================================================================
