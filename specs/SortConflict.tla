----------------------------- MODULE SortConflict -----------------------------
(***************************************************************************)
(* C19, design level: the equal-priority conflict of AdminNetworkPolicies  *)
(* is detected *inside the comparison callback* of a sort                  *)
(* (sortAdminNetpolsByPriority).  A conflict is therefore reported only if *)
(* the sort happens to compare the two conflicting elements.  This module  *)
(* models the insertion sort Go's sort.Slice uses for n <= 12 with that    *)
(* callback (equal priorities: flag the error, answer "not less") and lets *)
(* TLC check, for every arrangement of N slots holding N-1 distinct        *)
(* priorities (one value twice), that the flag is set when the sort ends   *)
(* and that the result is ordered.                                         *)
(***************************************************************************)
EXTENDS Integers, Sequences, FiniteSets, TLC

CONSTANT N

VARIABLES arr, i, j, err, cmp
vars == <<arr, i, j, err, cmp>>

(* all arrangements of 1..N-1 plus one duplicated value *)
Arrangements == {a \in [1..N -> 1..(N - 1)] : {a[k] : k \in 1..N} = 1..(N - 1)}

Init == /\ arr \in Arrangements /\ i = 2 /\ j = 2 /\ err = FALSE /\ cmp = {}

Less(x, y) == x < y          \* after the equality test of the callback

Swap(a, p, q) == [a EXCEPT ![p] = a[q], ![q] = a[p]]

(* inner loop: for j := i; j > 1 && less(arr[j], arr[j-1]); j-- { swap } *)
Inner == /\ i <= N /\ j > 1
         /\ cmp' = cmp \cup {{arr[j], arr[j - 1]}}
         /\ IF arr[j] = arr[j - 1]
            THEN /\ err' = TRUE /\ i' = i + 1 /\ j' = i + 1 /\ UNCHANGED arr     \* callback: error, "not less" -> loop ends
            ELSE IF Less(arr[j], arr[j - 1])
                 THEN /\ arr' = Swap(arr, j, j - 1) /\ j' = j - 1 /\ UNCHANGED <<i, err>>
                 ELSE /\ i' = i + 1 /\ j' = i + 1 /\ UNCHANGED <<arr, err>>
Outer == /\ i <= N /\ j = 1
         /\ i' = i + 1 /\ j' = i + 1 /\ UNCHANGED <<arr, err, cmp>>
Done == i > N /\ UNCHANGED vars

Next == Inner \/ Outer \/ Done
Spec == Init /\ [][Next]_vars

ConflictDetected == i > N => err
Ordered == i > N => \A k \in 1..(N - 1) : arr[k] <= arr[k + 1]
=============================================================================
