------------------------------- MODULE DiffRef -------------------------------
(***************************************************************************)
(* C04: what a connectivity diff must be, point-wise.  A point is a pair   *)
(* of diff peers: a workload identified by its printed key                 *)
(* namespace/name[Kind] (so a change of kind is a removal plus an          *)
(* addition) or a single abstract address class.  For every point let c1,  *)
(* c2 be the reference connectivity in the two worlds (empty when a        *)
(* workload is absent): no entry covers the point when both are empty,     *)
(* otherwise exactly one entry, of the right type, carrying exactly c1 and *)
(* c2, with the new/lost flags set iff that workload is absent from the    *)
(* other world.                                                            *)
(***************************************************************************)
EXTENDS Obs

KeyIdx(w, k) == {i \in WIdx(w) : WKey(w.workloads[i]) = k}
HasKey(w, k) == KeyIdx(w, k) # {}
(* diff peers: <<"k", key>> or <<"a", class>> *)
DPeers(w1, w2) == {<<"k", k>> : k \in WKeys(w1) \cup WKeys(w2)} \cup {<<"a", a>> : a \in Addrs(w1) \cup Addrs(w2)}
Present(w, p) == IF p[1] = "k" THEN HasKey(w, p[2]) ELSE p[2] \in Addrs(w)
AsPeer(w, p) == IF p[1] = "k" THEN <<"w", CHOOSE i \in KeyIdx(w, p[2]) : TRUE>> ELSE <<"a", p[2]>>
DConn(w, p, q) == IF Present(w, p) /\ Present(w, q) /\ p # q /\ (p[1] = "k" \/ q[1] = "k")
                  THEN Conn(w, AsPeer(w, p), AsPeer(w, q)) ELSE {}

DType(c1, c2) == IF c1 = {} /\ c2 = {} THEN "none"
                 ELSE IF c1 = c2 THEN "unchanged"
                 ELSE IF c1 = {} THEN "added"
                 ELSE IF c2 = {} THEN "removed" ELSE "changed"

DCovers(po, p) == IF p[1] = "k" THEN po.t = "w" /\ po.key = p[2] ELSE po.t = "ip" /\ p[2] \in Range(po.cls)
DEntryPts(w, all, pp) == IF all THEN AllPoints(w) ELSE UNION {{pr} \X Range(pp[pr]) : pr \in Protos}

DiffMismatches(w1, w2, dobs) ==
  CASE dobs.outcome = "panic" -> {<<"panic", dobs.errMsg>>}
    [] dobs.outcome = "error" -> {<<"C04-unexpected-error", dobs.errClass, dobs.errMsg>>}
    [] dobs.outcome = "ok" ->
      LET es == dobs.entries
          pts == {pq \in DPeers(w1, w2) \X DPeers(w1, w2) : pq[1] # pq[2] /\ (pq[1][1] = "k" \/ pq[2][1] = "k")}
          cover(pq) == {i \in DOMAIN es : DCovers(es[i].src, pq[1]) /\ DCovers(es[i].dst, pq[2])}
          wrong(pq) ==
            LET c1 == DConn(w1, pq[1], pq[2])
                c2 == DConn(w2, pq[1], pq[2])
                ty == DType(c1, c2)
                cv == cover(pq)
            IN IF ty = "none" THEN cv # {}
               ELSE \/ Cardinality(cv) # 1
                    \/ LET e == es[CHOOSE i \in cv : TRUE]
                           lostSrc == pq[1][1] = "k" /\ ((ty = "added" /\ ~HasKey(w1, pq[1][2])) \/ (ty = "removed" /\ ~HasKey(w2, pq[1][2])))
                           lostDst == pq[2][1] = "k" /\ ((ty = "added" /\ ~HasKey(w1, pq[2][2])) \/ (ty = "removed" /\ ~HasKey(w2, pq[2][2])))
                       IN \/ e.type # ty
                          \/ DEntryPts(w1, e.all1, e.pp1) # c1
                          \/ DEntryPts(w2, e.all2, e.pp2) # c2
                          \/ e.newSrc # lostSrc \/ e.newDst # lostDst
                          \/ ~e.aligned
          bad == {pq \in pts : wrong(pq)}
          stray == {i \in DOMAIN es : es[i].src.t \notin {"w", "ip", "ing"} \/ es[i].dst.t \notin {"w", "ip"}
                                      \/ (es[i].src.t = "ip" /\ ~es[i].src.aligned) \/ (es[i].dst.t = "ip" /\ ~es[i].dst.aligned)}
      IN {<<"C04-point", ToString(pq[1][2]), ToString(pq[2][2]), "expected", DType(DConn(w1, pq[1], pq[2]), DConn(w2, pq[1], pq[2])),
            DConn(w1, pq[1], pq[2]), DConn(w2, pq[1], pq[2]),
            "covering-entries", {<<es[i].type, es[i].src.key, es[i].dst.key, es[i].newSrc, es[i].newDst>> : i \in cover(pq)}>> : pq \in bad}
         \cup {<<"C04-stray-entry", es[i].src.key, es[i].dst.key>> : i \in stray}
=============================================================================
