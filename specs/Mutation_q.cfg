CONSTANT Pairs = FALSE
SPECIFICATION Spec
INVARIANT Emit
CHECK_DEADLOCK FALSE
