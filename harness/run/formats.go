package run

import (
	"strings"

	"verif/harness/formats"
	"verif/harness/world"
)

// APIRows renders the structured result of a list run in the canonical row syntax of package formats.
func APIRows(obs *ListObs, exposure bool) formats.Rows {
	r := formats.NewRows()
	for _, c := range obs.Conns {
		r.Conn = append(r.Conn, c.Src.Key+"|"+c.Dst.Key+"|"+formats.ConnFromAPI(c.All, c.Raw, nil))
	}
	if exposure {
		exposed := map[string]bool{}
		for _, xp := range obs.Exposure {
			exposed[xp.Peer.Key] = true
			add := func(dir string, protected bool, es []XEntry) {
				if !protected {
					r.X = append(r.X, xp.Peer.Key+"|"+dir+"|entire|ALL")
					r.XSel = append(r.XSel, xp.Peer.Key+"|"+dir+"|entire|ALL")
					r.Unprot = append(r.Unprot, xp.Peer.Key+"|"+dir)
					return
				}
				for _, e := range es {
					kind := "sel"
					if e.Entire {
						kind = "entire"
					}
					r.X = append(r.X, xp.Peer.Key+"|"+dir+"|"+kind+"|"+formats.ConnFromAPI(e.All, e.Raw, e.Names))
					r.XSel = append(r.XSel, xp.Peer.Key+"|"+dir+"|"+formats.RepFromAPI(e.Entire, e.NsSel.ML, reqs(e.NsSel.Ex), e.PodSel.ML, reqs(e.PodSel.Ex))+
						"|"+formats.ConnFromAPI(e.All, e.Raw, e.Names))
				}
			}
			add("Ingress", xp.IngressProtected, xp.Ingress)
			add("Egress", xp.EgressProtected, xp.Egress)
		}
		// connections with IP peers of exposed workloads are repeated inside the exposure sections
		for _, c := range obs.Conns {
			if (c.Src.T == "ip" && exposed[c.Dst.Key]) || (c.Dst.T == "ip" && exposed[c.Src.Key]) {
				r.XIP = append(r.XIP, c.Src.Key+"|"+c.Dst.Key+"|"+formats.ConnFromAPI(c.All, c.Raw, nil))
			}
		}
	}
	r.Conn, r.X, r.XIP, r.Unprot = formats.Bag(r.Conn), formats.Bag(r.X), formats.Bag(r.XIP), formats.Bag(r.Unprot)
	r.XSel = formats.Bag(r.XSel)
	return r
}

func reqs(ex []world.Expr) []formats.Req {
	out := make([]formats.Req, len(ex))
	for i, e := range ex {
		out[i] = formats.Req{Key: e.Key, Op: e.Op, Vals: e.Vals}
	}
	return out
}

// ParseList parses the tool's output of the given format.
func ParseList(format, out string, exposure bool, w *world.World) (formats.Rows, []string) {
	switch format {
	case "txt":
		return formats.ParseListTxt(out), []string{}
	case "csv":
		return formats.ParseListCSV(out), []string{}
	case "md":
		return formats.ParseListMD(out), []string{}
	case "json":
		return formats.ParseListJSON(out, exposure), []string{}
	case "dot":
		keys := map[string]bool{}
		for i := range w.Workloads {
			keys[w.Workloads[i].WKey()] = true
		}
		return formats.ParseListDot(out, func(s string) bool { return keys[s] })
	}
	r := formats.NewRows()
	r.OK = false
	r.Err = "unknown format"
	return r, []string{}
}

func diffInfoFlags(e *DiffEntry) string {
	f := ""
	if e.NewSrc {
		f += "S"
	}
	if e.NewDst {
		f += "D"
	}
	return f
}

// APIDiffRows renders a structured diff canonically; raw: the un-abstracted connection texts of each entry.
func APIDiffRows(obs *DiffObs) formats.DiffRows {
	r := formats.DiffRows{OK: true, Rows: []string{}, Unchanged: []string{}, Nodes: []string{}, RowsNoInfo: []string{}, NewLost: []string{}}
	seen := map[string]bool{}
	for i := range obs.Entries {
		e := &obs.Entries[i]
		if e.Type == "unchanged" {
			r.Unchanged = append(r.Unchanged, e.Src.Key+"|"+e.Dst.Key+"|"+e.C1)
			continue
		}
		r.Rows = append(r.Rows, strings.Join([]string{e.Type, e.Src.Key, e.Dst.Key, e.C1, e.C2, diffInfoFlags(e)}, "|"))
		r.RowsNoInfo = append(r.RowsNoInfo, strings.Join([]string{e.Type, e.Src.Key, e.Dst.Key, e.C1, e.C2, ""}, "|"))
		kind := map[string]string{"added": "new", "removed": "removed"}[e.Type]
		if e.NewSrc && kind != "" && !seen[e.Src.Key+"|"+kind] {
			seen[e.Src.Key+"|"+kind] = true
			r.NewLost = append(r.NewLost, e.Src.Key+"|"+kind)
		}
		if e.NewDst && kind != "" && !seen[e.Dst.Key+"|"+kind] {
			seen[e.Dst.Key+"|"+kind] = true
			r.NewLost = append(r.NewLost, e.Dst.Key+"|"+kind)
		}
	}
	r.Rows, r.Unchanged, r.RowsNoInfo = formats.Bag(r.Rows), formats.Bag(r.Unchanged), formats.Bag(r.RowsNoInfo)
	return r
}

// CanonDiffInfo rewrites the info column of parsed rows ("workload X and Y added") into the flags syntax "S"/"D"/"SD".
func CanonDiffInfo(rows []string) []string {
	res := []string{}
	for _, row := range rows {
		parts := strings.Split(row, "|")
		if len(parts) < 6 {
			res = append(res, row)
			continue
		}
		info := strings.Join(parts[5:], "|")
		suffix := ""
		if i := strings.LastIndex(info, "#"); i >= 0 && !strings.Contains(info[i:], " ") && info != "" {
			suffix, info = info[i:], info[:i]
		}
		f := ""
		if info != "" {
			if strings.Contains(info, parts[1]) {
				f += "S"
			}
			if strings.Contains(info, parts[2]) {
				f += "D"
			}
			if !strings.HasSuffix(info, " "+parts[0]) {
				f += "?"
			}
		}
		res = append(res, strings.Join(append(parts[:5], f), "|")+suffix)
	}
	return formats.Bag(res)
}
