// Package run wraps the real netpol-analyzer entry points and projects their results onto the
// abstract vocabulary of the specifications. It contains no oracle: it only runs code from /repo
// and abstracts what comes back (failing loudly when a reported boundary is not a model boundary).
package run

import (
	"fmt"
	"sort"
	"strconv"
	"strings"

	metav1 "k8s.io/apimachinery/pkg/apis/meta/v1"

	"github.com/np-guard/netpol-analyzer/pkg/netpol/connlist"
	"github.com/np-guard/netpol-analyzer/pkg/netpol/verifshim"

	"verif/harness/world"
)

var Protos = []string{"TCP", "UDP", "SCTP"}

// PeerObs: t = "w" (workload; Key = ns/name[Kind]), "ip" (address range), "ing" ({ingress-controller}),
// "other" (anything else, e.g. a representative peer leaking into the report).
type PeerObs struct {
	T       string `json:"t"`
	Key     string `json:"key"`
	NS      string `json:"ns"`
	Name    string `json:"name"`
	Kind    string `json:"kind"`
	Cls     []int  `json:"cls"`     // model address classes covered (ip only)
	Lo      [2]int `json:"lo"`      // concrete range start as (high 16 bits, low 16 bits)
	Hi      [2]int `json:"hi"`      // concrete range end
	Aligned bool   `json:"aligned"` // false: a boundary of the range is not a model boundary
	Single  bool   `json:"single"`  // the peer prints as exactly one a.b.c.d-e.f.g.h range
}

type ConnObs struct {
	Src     PeerObs             `json:"src"`
	Dst     PeerObs             `json:"dst"`
	All     bool                `json:"all"`
	PP      map[string][]int    `json:"pp"`  // protocol -> model ports
	Raw     map[string][][2]int `json:"raw"` // protocol -> concrete ranges as reported, in reported order
	Aligned bool                `json:"aligned"`
	Protos  []string            `json:"protos"` // protocol keys present in the reported map (sorted)
}

type ErrObs struct {
	Severe   bool     `json:"severe"`
	Fatal    bool     `json:"fatal"`
	Class    string   `json:"class"`
	Msg      string   `json:"msg"`
	Loc      string   `json:"loc"`
	Mentions []string `json:"mentions"` // workload keys (ns/name[Kind]) of the world that appear in the message
}

func mentions(msg string, w *world.World) []string {
	res := []string{}
	if w == nil {
		return res
	}
	for i := range w.Workloads {
		k := w.Workloads[i].WKey()
		if strings.Contains(msg, k) {
			res = append(res, k)
		}
	}
	return res
}

type XEntry struct {
	Entire  bool                `json:"entire"`
	NsSel   world.Sel           `json:"nsSel"`
	PodSel  world.Sel           `json:"podSel"`
	All     bool                `json:"all"`
	PP      map[string][]int    `json:"pp"`
	Raw     map[string][][2]int `json:"raw"`
	Names   map[string][]string `json:"names"` // protocol -> named ports in the potential connection
	Aligned bool                `json:"aligned"`
}

type XPeer struct {
	Peer             PeerObs  `json:"peer"`
	IngressProtected bool     `json:"ingressProtected"`
	EgressProtected  bool     `json:"egressProtected"`
	Ingress          []XEntry `json:"ingress"`
	Egress           []XEntry `json:"egress"`
}

type ListObs struct {
	Outcome  string    `json:"outcome"` // ok | error | panic
	ErrClass string    `json:"errClass"`
	ErrMsg   string    `json:"errMsg"`
	NilConns bool      `json:"nilConns"`
	Conns    []ConnObs `json:"conns"`
	Peers    []PeerObs `json:"peers"`
	Errors   []ErrObs  `json:"errors"`
	Exposure []XPeer   `json:"exposure"`
}

type ListOpts struct {
	Exposure    bool
	Focus       string
	StopOnError bool
	Format      string
}

// ClassifyErr maps an error text to a coarse class used by the trace specifications.
func ClassifyErr(msg string) string {
	switch {
	case msg == "":
		return ""
	case strings.Contains(msg, "cannot convert named port for an IP destination"):
		return "namedPortOnIP"
	case strings.Contains(msg, "have same priority"):
		return "samePriority"
	case strings.Contains(msg, "Invalid Priority Value"):
		return "priorityValue"
	case strings.Contains(msg, "an AdminNetworkPolicy with name"):
		return "anpSameName"
	case strings.Contains(msg, "NetworkPolicy") && strings.Contains(msg, "already exists"):
		return "npSameName"
	case strings.Contains(msg, "only one baseline admin network policy may be provided"):
		return "banpExists"
	case strings.Contains(msg, "metadata.name=default"):
		return "banpName"
	case strings.Contains(msg, "Found Pods of the same owner"):
		return "podsLabels"
	case strings.Contains(msg, "exposure analysis is disabled"):
		return "exposureWithANP"
	case strings.Contains(msg, "is missing") && strings.Contains(msg, "namespace"):
		return "missingNamespace"
	case strings.Contains(msg, "error reading file"):
		return "readingFile"
	case strings.Contains(msg, "YAML document is malformed"):
		return "malformedYaml"
	case strings.Contains(msg, "no relevant Kubernetes workload resources found"):
		return "noWorkloads"
	case strings.Contains(msg, "no relevant Kubernetes network policy resources found"):
		return "noNetpols"
	case strings.Contains(msg, "does not exist in the input resources"):
		return "focusMissing"
	case strings.Contains(msg, "ingress-controller workload was not added"):
		return "focusNoIngress"
	case strings.Contains(msg, "network policies are blocking"):
		return "blockedIngress"
	case strings.Contains(msg, "output format is not supported"):
		return "badFormat"
	case strings.Contains(msg, "CIDR error"):
		return "cidr"
	case strings.Contains(msg, "selector error"):
		return "selector"
	}
	return "other"
}

func split16(a uint32) [2]int { return [2]int{int(a >> 16), int(a & 0xffff)} }

func parseIP(s string) (uint32, bool) {
	parts := strings.Split(s, ".")
	if len(parts) != 4 {
		return 0, false
	}
	var v uint32
	for _, p := range parts {
		n, err := strconv.Atoi(p)
		if err != nil || n < 0 || n > 255 {
			return 0, false
		}
		v = v<<8 | uint32(n)
	}
	return v, true
}

// AbstractPeer projects a real peer.
func AbstractPeer(p connlist.Peer, w *world.World, c *world.Conc) PeerObs {
	o := PeerObs{Cls: []int{}, Key: p.String(), NS: p.Namespace(), Name: p.Name(), Kind: p.Kind()}
	switch {
	case p.IsPeerIPType():
		o.T = "ip"
		s := p.String()
		parts := strings.Split(s, "-")
		if len(parts) == 2 && !strings.Contains(s, ",") {
			lo, ok1 := parseIP(parts[0])
			hi, ok2 := parseIP(parts[1])
			if ok1 && ok2 {
				o.Single = true
				o.Lo, o.Hi = split16(lo), split16(hi)
				if cls, ok := c.AbstractRange(w, lo, hi); ok {
					o.Cls, o.Aligned = cls, true
				}
			}
		}
	case p.String() == "{"+verifshim.IngressPodName+"}":
		o.T, o.Aligned = "ing", true
	case strings.HasSuffix(p.String(), "]") && strings.Contains(p.String(), "/"):
		o.T, o.Aligned = "w", true
	default:
		o.T, o.Aligned = "other", true
	}
	return o
}

func abstractConn(all bool, pp map[string][][2]int, w *world.World, c *world.Conc) (map[string][]int, bool) {
	res := map[string][]int{}
	aligned := true
	for _, pr := range Protos {
		res[pr] = []int{}
	}
	if all {
		return res, true
	}
	for pr, ranges := range pp {
		ports, ok := c.AbstractPorts(w.M, ranges)
		if !ok {
			aligned = false
		}
		if ports == nil {
			ports = []int{}
		}
		res[pr] = ports
	}
	return res, aligned
}

func rawRanges(m map[string][][2]int) map[string][][2]int {
	res := map[string][][2]int{}
	for _, pr := range Protos {
		res[pr] = [][2]int{}
	}
	for pr, r := range m {
		if r == nil {
			r = [][2]int{}
		}
		res[pr] = r
	}
	return res
}

func connRanges(c connlist.Peer2PeerConnection) (map[string][][2]int, []string) {
	m := map[string][][2]int{}
	var keys []string
	for proto, prs := range c.ProtocolsAndPorts() {
		keys = append(keys, string(proto))
		rs := [][2]int{}
		for _, pr := range prs {
			rs = append(rs, [2]int{int(pr.Start()), int(pr.End())})
		}
		m[string(proto)] = rs
	}
	sort.Strings(keys)
	if keys == nil {
		keys = []string{}
	}
	return m, keys
}

func selFromK8s(s metav1.LabelSelector) world.Sel {
	r := world.Sel{ML: world.Labels{}, Ex: []world.Expr{}}
	for k, v := range s.MatchLabels {
		r.ML[k] = v
	}
	for _, e := range s.MatchExpressions {
		vals := append([]string{}, e.Values...)
		r.Ex = append(r.Ex, world.Expr{Key: e.Key, Op: string(e.Operator), Vals: vals})
	}
	return r
}

func xEntries(data []connlist.XgressExposureData, w *world.World, c *world.Conc) []XEntry {
	res := []XEntry{}
	for _, d := range data {
		conn := d.PotentialConnectivity()
		e := XEntry{Entire: d.IsExposedToEntireCluster(), NsSel: selFromK8s(d.NamespaceLabels()), PodSel: selFromK8s(d.PodLabels()),
			All: conn.IsAllConnections(), Names: map[string][]string{}}
		m := map[string][][2]int{}
		for proto, prs := range conn.ProtocolsAndPortsMap() {
			rs := [][2]int{}
			for _, pr := range prs {
				rs = append(rs, [2]int{int(pr.Start()), int(pr.End())})
			}
			m[string(proto)] = rs
		}
		e.PP, e.Aligned = abstractConn(e.All, m, w, c)
		e.Raw = rawRanges(m)
		for _, pr := range Protos {
			e.Names[pr] = []string{}
		}
		for pr, names := range verifshim.NamedPortsOf(conn) {
			e.Names[pr] = names
		}
		res = append(res, e)
	}
	return res
}

// List runs the real `list` analysis on dir and returns the abstracted observation plus the formatted output.
func List(dir string, w *world.World, c *world.Conc, o ListOpts) (obs ListObs, out string, outErr string) {
	obs = ListObs{Conns: []ConnObs{}, Peers: []PeerObs{}, Errors: []ErrObs{}, Exposure: []XPeer{}}
	defer func() {
		if r := recover(); r != nil {
			obs.Outcome = "panic"
			obs.ErrMsg = fmt.Sprint(r)
		}
	}()
	opts := []connlist.ConnlistAnalyzerOption{connlist.WithLogger(Quiet{}),
		connlist.WithMuteErrsAndWarns()}
	if o.Exposure {
		opts = append(opts, connlist.WithExposureAnalysis())
	}
	if o.Focus != "" {
		opts = append(opts, connlist.WithFocusWorkload(o.Focus))
	}
	if o.StopOnError {
		opts = append(opts, connlist.WithStopOnError())
	}
	if o.Format != "" {
		opts = append(opts, connlist.WithOutputFormat(o.Format))
	}
	ca := connlist.NewConnlistAnalyzer(opts...)
	conns, peers, err := ca.ConnlistFromDirPath(dir)
	for _, e := range ca.Errors() {
		msg := ""
		if e.Error() != nil {
			msg = e.Error().Error()
		}
		obs.Errors = append(obs.Errors, ErrObs{Severe: e.IsSevere(), Fatal: e.IsFatal(), Class: ClassifyErr(msg), Msg: msg, Loc: e.Location(), Mentions: mentions(msg, w)})
	}
	if err != nil {
		obs.Outcome = "error"
		obs.ErrMsg = err.Error()
		obs.ErrClass = ClassifyErr(obs.ErrMsg)
		return obs, "", ""
	}
	obs.Outcome = "ok"
	obs.NilConns = conns == nil
	for _, p := range peers {
		obs.Peers = append(obs.Peers, AbstractPeer(p, w, c))
	}
	for _, cn := range conns {
		raw, keys := connRanges(cn)
		co := ConnObs{Src: AbstractPeer(cn.Src(), w, c), Dst: AbstractPeer(cn.Dst(), w, c), All: cn.AllProtocolsAndPorts(),
			Raw: rawRanges(raw), Protos: keys}
		co.PP, co.Aligned = abstractConn(co.All, raw, w, c)
		obs.Conns = append(obs.Conns, co)
	}
	if o.Exposure {
		for _, ep := range ca.ExposedPeers() {
			obs.Exposure = append(obs.Exposure, XPeer{Peer: AbstractPeer(ep.ExposedPeer(), w, c),
				IngressProtected: ep.IsProtectedByIngressNetpols(), EgressProtected: ep.IsProtectedByEgressNetpols(),
				Ingress: xEntries(ep.IngressExposure(), w, c), Egress: xEntries(ep.EgressExposure(), w, c)})
		}
	}
	s, ferr := ca.ConnectionsListToString(conns)
	if ferr != nil {
		outErr = ferr.Error()
	}
	return obs, s, outErr
}
