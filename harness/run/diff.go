package run

import (
	"fmt"

	"github.com/np-guard/netpol-analyzer/pkg/netpol/diff"

	"verif/harness/formats"
	"verif/harness/world"
)

// DiffEntry is one entry of a connectivity diff, abstracted.
type DiffEntry struct {
	Type    string           `json:"type"` // added | removed | changed | unchanged
	Src     PeerObs          `json:"src"`
	Dst     PeerObs          `json:"dst"`
	All1    bool             `json:"all1"`
	PP1     map[string][]int `json:"pp1"`
	All2    bool             `json:"all2"`
	PP2     map[string][]int `json:"pp2"`
	Aligned bool             `json:"aligned"`
	NewSrc  bool             `json:"newSrc"` // IsSrcNewOrRemoved
	NewDst  bool             `json:"newDst"`
	C1      string           `json:"c1"` // canonical text of the un-abstracted connections (package formats syntax)
	C2      string           `json:"c2"`
}

type DiffObs struct {
	Outcome  string      `json:"outcome"` // ok | error | panic
	ErrClass string      `json:"errClass"`
	ErrMsg   string      `json:"errMsg"`
	NilDiff  bool        `json:"nilDiff"`
	Entries  []DiffEntry `json:"entries"`
	Errors   []ErrObs    `json:"errors"`
}

func connText(ac diff.AllowedConnectivity) string {
	m := map[string][][2]int{}
	for proto, prs := range ac.ProtocolsAndPorts() {
		rs := [][2]int{}
		for _, pr := range prs {
			rs = append(rs, [2]int{int(pr.Start()), int(pr.End())})
		}
		m[string(proto)] = rs
	}
	return formats.ConnFromAPI(ac.AllProtocolsAndPorts(), m, nil)
}

func connOf(ac diff.AllowedConnectivity, w *world.World, c *world.Conc) (bool, map[string][]int, bool) {
	m := map[string][][2]int{}
	for proto, prs := range ac.ProtocolsAndPorts() {
		rs := [][2]int{}
		for _, pr := range prs {
			rs = append(rs, [2]int{int(pr.Start()), int(pr.End())})
		}
		m[string(proto)] = rs
	}
	pp, aligned := abstractConn(ac.AllProtocolsAndPorts(), m, w, c)
	return ac.AllProtocolsAndPorts(), pp, aligned
}

// Diff runs the real diff analysis. w1/c1 and w2/c2 describe the two sides (for abstraction of peers
// the second world's concretisation must use the same port cuts and address embedding as the first).
func Diff(dir1, dir2 string, w *world.World, c *world.Conc, stop bool, format string) (obs DiffObs, out string) {
	obs = DiffObs{Entries: []DiffEntry{}, Errors: []ErrObs{}}
	defer func() {
		if r := recover(); r != nil {
			obs.Outcome = "panic"
			obs.ErrMsg = fmt.Sprint(r)
		}
	}()
	opts := []diff.DiffAnalyzerOption{diff.WithLogger(Quiet{})}
	if stop {
		opts = append(opts, diff.WithStopOnError())
	}
	if format != "" {
		opts = append(opts, diff.WithOutputFormat(format))
	}
	da := diff.NewDiffAnalyzer(opts...)
	d, err := da.ConnDiffFromDirPaths(dir1, dir2)
	for _, e := range da.Errors() {
		msg := ""
		if e.Error() != nil {
			msg = e.Error().Error()
		}
		obs.Errors = append(obs.Errors, ErrObs{Severe: e.IsSevere(), Fatal: e.IsFatal(), Class: ClassifyErr(msg), Msg: msg, Loc: e.Location(), Mentions: []string{}})
	}
	if err != nil {
		obs.Outcome = "error"
		obs.ErrMsg = err.Error()
		obs.ErrClass = ClassifyErr(obs.ErrMsg)
		obs.NilDiff = d == nil
		return obs, ""
	}
	obs.Outcome = "ok"
	if d == nil {
		obs.NilDiff = true
		return obs, ""
	}
	add := func(t string, list []diff.SrcDstDiff) {
		for _, e := range list {
			de := DiffEntry{Type: t, Src: AbstractPeer(e.Src(), w, c), Dst: AbstractPeer(e.Dst(), w, c), NewSrc: e.IsSrcNewOrRemoved(), NewDst: e.IsDstNewOrRemoved()}
			var a1, a2 bool
			de.All1, de.PP1, a1 = connOf(e.Ref1Connectivity(), w, c)
			de.All2, de.PP2, a2 = connOf(e.Ref2Connectivity(), w, c)
			de.Aligned = a1 && a2
			de.C1, de.C2 = connText(e.Ref1Connectivity()), connText(e.Ref2Connectivity())
			obs.Entries = append(obs.Entries, de)
		}
	}
	add("removed", d.RemovedConnections())
	add("added", d.AddedConnections())
	add("changed", d.ChangedConnections())
	add("unchanged", d.UnchangedConnections())
	s, ferr := da.ConnectivityDiffToString(d)
	if ferr != nil {
		return obs, ""
	}
	return obs, s
}
