package run

// Quiet is a logger that discards everything (the harness records Errors() instead).
type Quiet struct{}

func (Quiet) Debugf(format string, o ...interface{})            {}
func (Quiet) Infof(format string, o ...interface{})             {}
func (Quiet) Warnf(format string, o ...interface{})             {}
func (Quiet) Errorf(err error, format string, o ...interface{}) {}
