package run

import (
	"runtime"
	"sync/atomic"
)

// Quiet is a logger that discards everything (the harness records Errors() instead).
type Quiet struct{}

func (Quiet) Debugf(format string, o ...interface{})            {}
func (Quiet) Infof(format string, o ...interface{})             {}
func (Quiet) Warnf(format string, o ...interface{})             {}
func (Quiet) Errorf(err error, format string, o ...interface{}) {}

var evalCalls atomic.Int64

// Tick is called once per CheckIfAllowed call of the harness. The engine opens its cache-hit log file on every cache hit and
// never closes it (the descriptor is released by the finaliser only), so a long sweep can exhaust the descriptors of the
// process before the collector runs on its own: collect every few thousand calls.
func Tick() {
	if evalCalls.Add(1)%3000 == 0 {
		runtime.GC()
	}
}
