package run

import (
	"fmt"
	"math/rand"
	"os/exec"
	"path/filepath"
	"strconv"
	"strings"

	"github.com/np-guard/netpol-analyzer/pkg/manifests/fsscanner"
	"github.com/np-guard/netpol-analyzer/pkg/manifests/parser"
	"github.com/np-guard/netpol-analyzer/pkg/netpol/eval"

	"verif/harness/world"
)

// EvalQ is the aggregated observation of CheckIfAllowed for one ordered pair of endpoints:
// R[proto index][model port-1] = 0 false, 1 true, 2 error, 3 inconsistent inside one port chunk.
type EvalQ struct {
	S    []interface{} `json:"s"` // ["w", workload index (1-based), pod index] or ["a", class, 0]
	D    []interface{} `json:"d"`
	Same bool          `json:"same"` // same pod
	R    [][]int       `json:"r"`
	Msg  string        `json:"msg"`
}

type EvalObs struct {
	Via     string  `json:"via"` // api | cli
	Outcome string  `json:"outcome"`
	ErrMsg  string  `json:"errMsg"`
	Q       []EvalQ `json:"q"`
}

// PodNamesOf returns the pod names (without namespace) under which the engine knows a workload.
func PodNamesOf(wl *world.Workload) []string {
	switch wl.Expr {
	case "bare", "pods":
		return wl.PodNames()
	}
	n := 1
	if wl.Kind != "DaemonSet" && wl.Kind != "CronJob" && wl.Replicas > 1 {
		n = 2
	}
	var r []string
	for i := 1; i <= n; i++ {
		r = append(r, fmt.Sprintf("%s-%d", wl.Name, i))
	}
	return r
}

type endpoint struct {
	tag  string
	idx  int // workload index (1-based) or class
	pod  int
	name string // "ns/pod" or IP
}

func endpoints(w *world.World, c *world.Conc, r *rand.Rand) []endpoint {
	var eps []endpoint
	for i := range w.Workloads {
		wl := &w.Workloads[i]
		for j, pn := range PodNamesOf(wl) {
			if j > 1 {
				break
			}
			eps = append(eps, endpoint{"w", i + 1, j, wl.NS + "/" + pn})
		}
	}
	nclass := w.NAddr
	if w.HasOut {
		nclass += 2
	}
	for a := 0; a < nclass; a++ {
		if ip, ok := c.RepAddr(w, a, r.Intn(6)); ok {
			eps = append(eps, endpoint{"a", a, 0, world.IPStr(ip)})
		}
	}
	return eps
}

func code(b bool, err error) int {
	if err != nil {
		return 2
	}
	if b {
		return 1
	}
	return 0
}

// EvalAPI builds a PolicyEngine from dir the way `list` does and sweeps CheckIfAllowed.
func EvalAPI(dir string, w *world.World, c *world.Conc, seed int64, maxPairs int) (obs EvalObs) {
	obs = EvalObs{Via: "api", Q: []EvalQ{}}
	defer func() {
		if r := recover(); r != nil {
			obs.Outcome = "panic"
			obs.ErrMsg = fmt.Sprint(r)
		}
	}()
	rList, _ := fsscanner.GetResourceInfosFromDirPath([]string{dir}, true, false)
	objects, _ := parser.ResourceInfoListToK8sObjectsList(rList, Quiet{}, true)
	pe, err := eval.NewPolicyEngineWithObjects(objects)
	if err != nil {
		obs.Outcome = "error"
		obs.ErrMsg = err.Error()
		return obs
	}
	obs.Outcome = "ok"
	r := rand.New(rand.NewSource(seed))
	eps := endpoints(w, c, r)
	type pair struct{ s, d endpoint }
	var pairs []pair
	for _, s := range eps {
		for _, d := range eps {
			if s.tag == "a" && d.tag == "a" {
				continue
			}
			pairs = append(pairs, pair{s, d})
		}
	}
	if maxPairs > 0 && len(pairs) > maxPairs {
		r.Shuffle(len(pairs), func(i, j int) { pairs[i], pairs[j] = pairs[j], pairs[i] })
		pairs = pairs[:maxPairs]
	}
	for _, p := range pairs {
		q := EvalQ{S: []interface{}{p.s.tag, p.s.idx, p.s.pod}, D: []interface{}{p.d.tag, p.d.idx, p.d.pod},
			Same: p.s.tag == "w" && p.s.name == p.d.name}
		for _, proto := range Protos {
			row := make([]int, w.M)
			for n := 1; n <= w.M; n++ {
				lo, hi := c.PortLo(n), c.PortHi(n)
				probes := []int{lo, hi, lo + (hi-lo)/2}
				res := -1
				for _, port := range probes {
					// the protocol is passed as the CLI would pass it for half of the probes (lower case)
					pr := proto
					if (port+n)%2 == 0 {
						pr = strings.ToLower(proto)
					}
					Tick()
					b, err := pe.CheckIfAllowed(p.s.name, p.d.name, pr, strconv.Itoa(port))
					cd := code(b, err)
					if err != nil && q.Msg == "" {
						q.Msg = err.Error()
					}
					if res == -1 {
						res = cd
					} else if res != cd {
						res = 3
					}
				}
				row[n-1] = res
			}
			q.R = append(q.R, row)
		}
		obs.Q = append(obs.Q, q)
	}
	return obs
}

// EvalCLI runs the built binary `k8snetpolicy eval` for a seeded sample of queries (bare-pod worlds only).
func EvalCLI(bin, dir string, w *world.World, c *world.Conc, seed int64, nQueries int) (obs EvalObs) {
	obs = EvalObs{Via: "cli", Outcome: "ok", Q: []EvalQ{}}
	r := rand.New(rand.NewSource(seed))
	eps := endpoints(w, c, r)
	if len(eps) == 0 {
		return obs
	}
	for k := 0; k < nQueries; k++ {
		s, d := eps[r.Intn(len(eps))], eps[r.Intn(len(eps))]
		if s.tag == "a" && d.tag == "a" {
			continue
		}
		proto := Protos[r.Intn(3)]
		n := 1 + r.Intn(w.M)
		port := []int{c.PortLo(n), c.PortHi(n)}[r.Intn(2)]
		args := []string{"eval", "--dirpath", dir, "-q", "-p", strconv.Itoa(port), "--protocol", strings.ToLower(proto)}
		if s.tag == "a" {
			args = append(args, "--source-ip", s.name)
		} else {
			ns, pod, _ := strings.Cut(s.name, "/")
			args = append(args, "-s", pod, "-n", ns)
		}
		if d.tag == "a" {
			args = append(args, "--destination-ip", d.name)
		} else {
			ns, pod, _ := strings.Cut(d.name, "/")
			args = append(args, "-d", pod, "--destination-namespace", ns)
		}
		cmd := exec.Command(bin, args...)
		cmd.Dir = filepath.Dir(dir)
		out, err := cmd.Output()
		res := 2
		msg := ""
		text := strings.TrimSpace(string(out))
		switch {
		case err == nil && strings.HasSuffix(text, ": true"):
			res = 1
		case err == nil && strings.HasSuffix(text, ": false"):
			res = 0
		default:
			if ee, ok := err.(*exec.ExitError); ok {
				msg = strings.TrimSpace(string(ee.Stderr))
			} else if err != nil {
				msg = err.Error()
			}
			if len(msg) > 300 {
				msg = msg[:300]
			}
		}
		// one probed point: every other cell of R is -1 (not asked)
		q := EvalQ{S: []interface{}{s.tag, s.idx, s.pod}, D: []interface{}{d.tag, d.idx, d.pod}, Same: s.tag == "w" && s.name == d.name, Msg: msg}
		for pi, pr := range Protos {
			row := make([]int, w.M)
			for i := range row {
				row[i] = -1
			}
			if pr == proto {
				row[n-1] = res
			}
			_ = pi
			q.R = append(q.R, row)
		}
		obs.Q = append(obs.Q, q)
	}
	return obs
}
