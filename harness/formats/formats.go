// Package formats parses the tool's own output formats back into rows (C09). The parsers are the trusted
// base of the format checks: they are deliberately independent of the tool's formatting code.
package formats

import (
	"encoding/csv"
	"encoding/json"
	"fmt"
	"regexp"
	"sort"
	"strings"
)

// Rows is the content of one rendering of a list result, as canonical strings.
type Rows struct {
	OK     bool     `json:"ok"`     // the text could be parsed completely
	Err    string   `json:"err"`    // why not
	Conn   []string `json:"conn"`   // "src|dst|CONN" of the connectivity section
	X      []string `json:"x"`      // exposure rows "W|Ingress/Egress|entire/sel|CONN" (a bag: duplicates get a #k suffix)
	XSel   []string `json:"xsel"`   // exposure rows with the canonicalised representative peer "W|dir|CANONREP|CONN" (not for dot)
	XRep   []string `json:"xrep"`   // exposure rows with the printed representative peer "W|dir|REP|CONN" (not for dot / api)
	XIP    []string `json:"xip"`    // IP rows repeated inside exposure sections "src|dst|CONN"
	Unprot []string `json:"unprot"` // "W|Ingress" / "W|Egress" lines of the unprotected section (formats that have one)
	HasUnp bool     `json:"hasUnp"` // the format has an unprotected-workloads section at all
}

func NewRows() Rows {
	return Rows{OK: true, Conn: []string{}, X: []string{}, XRep: []string{}, XSel: []string{}, XIP: []string{}, Unprot: []string{}}
}

// Bag turns a multiset into a set by numbering duplicates.
func Bag(xs []string) []string {
	sort.Strings(xs)
	res := []string{}
	cnt := map[string]int{}
	for _, x := range xs {
		cnt[x]++
		if cnt[x] > 1 {
			res = append(res, fmt.Sprintf("%s#%d", x, cnt[x]))
		} else {
			res = append(res, x)
		}
	}
	return res
}

// CanonConn parses a connection text ("All Connections", "No Connections", "TCP 80,81-90,http,UDP 53") and
// returns a canonical string "ALL" | "NONE" | "TCP:80,81-90,http;UDP:53".
func CanonConn(s string) (string, bool) {
	s = strings.TrimSpace(s)
	switch s {
	case "All Connections":
		return "ALL", true
	case "No Connections":
		return "NONE", true
	case "":
		return "", false
	}
	var groups []string
	cur := ""
	for _, tok := range strings.Split(s, ",") {
		if strings.Contains(tok, " ") {
			parts := strings.SplitN(tok, " ", 2)
			if cur != "" {
				groups = append(groups, cur)
			}
			if parts[0] != "TCP" && parts[0] != "UDP" && parts[0] != "SCTP" {
				return "", false
			}
			cur = parts[0] + ":" + strings.TrimSpace(parts[1])
		} else {
			if cur == "" || tok == "" {
				return "", false
			}
			cur += "," + tok
		}
	}
	if cur != "" {
		groups = append(groups, cur)
	}
	sort.Strings(groups)
	return strings.Join(groups, ";"), true
}

// ConnFromAPI renders a structured connection canonically (same syntax as CanonConn).
func ConnFromAPI(all bool, pp map[string][][2]int, names map[string][]string) string {
	if all {
		return "ALL"
	}
	var groups []string
	protos := map[string]bool{}
	for p := range pp {
		protos[p] = true
	}
	for p, ns := range names {
		if len(ns) > 0 {
			protos[p] = true
		}
	}
	for p := range protos {
		var toks []string
		for _, r := range pp[p] {
			if r[0] == r[1] {
				toks = append(toks, fmt.Sprintf("%d", r[0]))
			} else {
				toks = append(toks, fmt.Sprintf("%d-%d", r[0], r[1]))
			}
		}
		ns := append([]string{}, names[p]...)
		sort.Strings(ns)
		toks = append(toks, ns...)
		if len(toks) == 0 {
			continue
		}
		groups = append(groups, p+":"+strings.Join(toks, ","))
	}
	if len(groups) == 0 {
		return "NONE"
	}
	sort.Strings(groups)
	return strings.Join(groups, ";")
}

func (r *Rows) fail(format string, a ...interface{}) {
	if r.OK {
		r.OK = false
		r.Err = fmt.Sprintf(format, a...)
	}
}

func (r *Rows) addConn(src, dst, conn string) {
	c, ok := CanonConn(conn)
	if !ok {
		r.fail("bad connection text %q", conn)
	}
	r.Conn = append(r.Conn, src+"|"+dst+"|"+c)
}

var ipRange = regexp.MustCompile(`^\d+\.\d+\.\d+\.\d+-\d+\.\d+\.\d+\.\d+$`)

// addX adds one exposure-section row. w: the workload, other: what it is exposed to, dir: Ingress | Egress.
func (r *Rows) addX(w, other, dir, conn string) {
	c, ok := CanonConn(conn)
	if !ok {
		r.fail("bad connection text %q", conn)
	}
	if ipRange.MatchString(other) {
		if dir == "Ingress" {
			r.XIP = append(r.XIP, other+"|"+w+"|"+c)
		} else {
			r.XIP = append(r.XIP, w+"|"+other+"|"+c)
		}
		return
	}
	kind := "sel"
	if other == "entire-cluster" {
		kind = "entire"
	}
	r.X = append(r.X, w+"|"+dir+"|"+kind+"|"+c)
	r.XRep = append(r.XRep, w+"|"+dir+"|"+other+"|"+c)
	canon, ok := CanonRepLabel(other)
	if !ok {
		r.fail("cannot parse the exposure peer label %q", other)
	}
	r.XSel = append(r.XSel, w+"|"+dir+"|"+canon+"|"+c)
}

func (r *Rows) finish() {
	r.X = Bag(r.X)
	r.XRep = Bag(r.XRep)
	r.XSel = Bag(r.XSel)
	r.XIP = Bag(r.XIP)
	r.Conn = Bag(r.Conn)
	r.Unprot = Bag(r.Unprot)
}

// ParseListTxt parses the txt format.
func ParseListTxt(out string) Rows {
	r := NewRows()
	r.HasUnp = true
	section := "conn"
	for _, line := range strings.Split(out, "\n") {
		line = strings.TrimRight(line, "\r")
		switch strings.TrimSpace(line) {
		case "":
			continue
		case "Exposure Analysis Result:":
			section = "x"
			continue
		case "Egress Exposure:":
			section = "Egress"
			continue
		case "Ingress Exposure:":
			section = "Ingress"
			continue
		case "Workloads not protected by network policies:":
			section = "unprot"
			continue
		}
		switch section {
		case "conn":
			i := strings.LastIndex(line, " : ")
			j := strings.Index(line, " => ")
			if i < 0 || j < 0 || j > i {
				r.fail("bad txt line %q", line)
				continue
			}
			r.addConn(line[:j], line[j+4:i], line[i+3:])
		case "Egress", "Ingress":
			i := strings.LastIndex(line, " : ")
			arrow := " \t=> \t"
			if section == "Ingress" {
				arrow = " \t<= \t"
			}
			j := strings.Index(line, arrow)
			if i < 0 || j < 0 || j > i {
				r.fail("bad txt exposure line %q", line)
				continue
			}
			r.addX(strings.TrimSpace(line[:j]), strings.TrimSpace(line[j+len(arrow):i]), section, line[i+3:])
		case "unprot":
			const mid = " is not protected on "
			j := strings.Index(line, mid)
			if j < 0 {
				r.fail("bad unprotected line %q", line)
				continue
			}
			r.Unprot = append(r.Unprot, line[:j]+"|"+line[j+len(mid):])
		default:
			r.fail("unexpected line %q", line)
		}
	}
	r.finish()
	return r
}

// ParseListCSV parses the csv format.
func ParseListCSV(out string) Rows {
	r := NewRows()
	rd := csv.NewReader(strings.NewReader(out))
	rd.FieldsPerRecord = -1
	recs, err := rd.ReadAll()
	if err != nil {
		r.fail("csv: %v", err)
		return r
	}
	section := "conn"
	wcol := 0 // column of the workload in the current exposure section
	for _, rec := range recs {
		if len(rec) != 3 {
			r.fail("csv record with %d fields", len(rec))
			continue
		}
		switch {
		case rec[2] == "conn" && ((rec[0] == "src" && rec[1] == "dst") || (rec[0] == "dst" && rec[1] == "src")):
			// header: in the ingress section the exposed workload is the dst, in the egress section the src
			wcol = 0
			if (section == "Ingress" && rec[1] == "dst") || (section == "Egress" && rec[1] == "src") {
				wcol = 1
			}
			continue
		case rec[0] == "Exposure Analysis Result:":
			section = "x"
			continue
		case rec[0] == "Egress Exposure:":
			section = "Egress"
			continue
		case rec[0] == "Ingress Exposure:":
			section = "Ingress"
			continue
		}
		switch section {
		case "conn":
			r.addConn(rec[0], rec[1], rec[2])
		case "Egress", "Ingress":
			r.addX(rec[wcol], rec[1-wcol], section, rec[2])
		default:
			r.fail("unexpected csv record %v", rec)
		}
	}
	r.finish()
	return r
}

// ParseListMD parses the md format.
func ParseListMD(out string) Rows {
	r := NewRows()
	section := "conn"
	wcol := 0
	for _, line := range strings.Split(out, "\n") {
		line = strings.TrimSpace(line)
		switch {
		case line == "":
			continue
		case line == "| dst | src | conn |":
			wcol = 1
			if section == "Ingress" {
				wcol = 0
			}
			continue
		case line == "## Exposure Analysis Result:":
			section = "x"
			continue
		case line == "### Egress Exposure:":
			section = "Egress"
			continue
		case line == "### Ingress Exposure:":
			section = "Ingress"
			continue
		case strings.HasPrefix(line, "|--"):
			continue
		case line == "| src | dst | conn |":
			wcol = 0
			if section == "Ingress" {
				wcol = 1
			}
			continue
		}
		if !strings.HasPrefix(line, "| ") || !strings.HasSuffix(line, " |") {
			r.fail("bad md line %q", line)
			continue
		}
		cells := strings.Split(line[2:len(line)-2], " | ")
		if len(cells) != 3 {
			r.fail("md row with %d cells: %q", len(cells), line)
			continue
		}
		switch section {
		case "conn":
			r.addConn(cells[0], cells[1], cells[2])
		case "Egress", "Ingress":
			r.addX(cells[wcol], cells[1-wcol], section, cells[2])
		default:
			r.fail("unexpected md row %q", line)
		}
	}
	r.finish()
	return r
}

type jrow struct {
	Src  string `json:"src"`
	Dst  string `json:"dst"`
	Conn string `json:"conn"`
}

// ParseListJSON parses the json format.
func ParseListJSON(out string, exposure bool) Rows {
	r := NewRows()
	if strings.TrimSpace(out) == "" {
		r.finish()
		return r
	}
	if !exposure {
		var rows []jrow
		if err := json.Unmarshal([]byte(out), &rows); err != nil {
			r.fail("json: %v", err)
			return r
		}
		for _, x := range rows {
			r.addConn(x.Src, x.Dst, x.Conn)
		}
		r.finish()
		return r
	}
	var doc struct {
		Conn []jrow `json:"connlist_results"`
		X    struct {
			Eg []jrow `json:"egress_exposure"`
			In []jrow `json:"ingress_exposure"`
		} `json:"exposure_results"`
	}
	if err := json.Unmarshal([]byte(out), &doc); err != nil {
		r.fail("json: %v", err)
		return r
	}
	for _, x := range doc.Conn {
		r.addConn(x.Src, x.Dst, x.Conn)
	}
	for _, x := range doc.X.Eg {
		r.addX(x.Src, x.Dst, "Egress", x.Conn)
	}
	for _, x := range doc.X.In {
		r.addX(x.Dst, x.Src, "Ingress", x.Conn)
	}
	r.finish()
	return r
}

var dotEdge = regexp.MustCompile(`^\t"(.*)" -> "(.*)" \[label="([^"]*)" (.*)\]$`)
var dotNode = regexp.MustCompile(`^\t+"(.*)" \[label="([^"]*)" (.*)\]$`)

// ParseListDot parses the dot format: edges (dashed = exposure) and nodes.
func ParseListDot(out string, isWorkload func(string) bool) (Rows, []string) {
	r := NewRows()
	nodes := []string{}
	for _, line := range strings.Split(out, "\n") {
		if m := dotEdge.FindStringSubmatch(line); m != nil {
			if strings.Contains(m[4], "style=dashed") {
				// exposure edge: exactly one end is a workload of the input
				switch {
				case isWorkload(m[1]) && !isWorkload(m[2]):
					c, ok := CanonConn(m[3])
					if !ok {
						r.fail("bad connection text %q", m[3])
					}
					kind := "sel"
					if m[2] == "entire-cluster" {
						kind = "entire"
					}
					r.X = append(r.X, m[1]+"|Egress|"+kind+"|"+c)
				case isWorkload(m[2]) && !isWorkload(m[1]):
					c, ok := CanonConn(m[3])
					if !ok {
						r.fail("bad connection text %q", m[3])
					}
					kind := "sel"
					if m[1] == "entire-cluster" {
						kind = "entire"
					}
					r.X = append(r.X, m[2]+"|Ingress|"+kind+"|"+c)
				default:
					r.fail("dashed edge without exactly one workload end: %q", line)
				}
			} else {
				r.addConn(m[1], m[2], m[3])
			}
			continue
		}
		if m := dotNode.FindStringSubmatch(line); m != nil {
			nodes = append(nodes, m[1])
		}
	}
	if !strings.HasPrefix(out, "digraph {") {
		r.fail("not a digraph")
	}
	r.finish()
	sort.Strings(nodes)
	return r, nodes
}

// ---------------------------------------------------------------------------------------------
// diff formats

// DiffRows: canonical rows "type|src|dst|C1|C2|info" ("info" = workloads-diff-info text, may be empty).
type DiffRows struct {
	OK   bool     `json:"ok"`
	Err  string   `json:"err"`
	Rows []string `json:"rows"`
	// dot only: unchanged edges "src|dst|C" and node colours "peer|new/removed/persistent"
	Unchanged []string `json:"unchanged"`
	Nodes     []string `json:"nodes"`
	// api only: the rows without the info column (what dot can show) and the new / removed peers
	RowsNoInfo []string `json:"rowsNoInfo"`
	NewLost    []string `json:"newLost"`
}

func newDiffRows() DiffRows {
	return DiffRows{OK: true, Rows: []string{}, Unchanged: []string{}, Nodes: []string{}, RowsNoInfo: []string{}, NewLost: []string{}}
}

func (r *DiffRows) fail(format string, a ...interface{}) {
	if r.OK {
		r.OK = false
		r.Err = fmt.Sprintf(format, a...)
	}
}

func (r *DiffRows) add(typ, src, dst, c1, c2, info string) {
	a, ok1 := CanonConn(c1)
	b, ok2 := CanonConn(c2)
	if !ok1 || !ok2 {
		r.fail("bad connection text %q / %q", c1, c2)
	}
	r.Rows = append(r.Rows, strings.Join([]string{typ, src, dst, a, b, strings.TrimSpace(info)}, "|"))
}

var diffTxt = regexp.MustCompile(`^diff-type: (\w+), source: (.*?), destination: (.*?), (ref1|dir1): (.*?), (ref2|dir2): (.*?)(, workloads-diff-info: (.*))?$`)

func ParseDiffTxt(out string) DiffRows {
	r := newDiffRows()
	for _, line := range strings.Split(out, "\n") {
		line = strings.TrimRight(line, "\r")
		if line == "" || line == "Connectivity diff:" {
			continue
		}
		// fields are separated by ", " and the connection texts contain "," but never ", "
		m := diffTxt.FindStringSubmatch(line)
		if m == nil {
			r.fail("bad diff txt line %q", line)
			continue
		}
		r.add(m[1], m[2], m[3], m[5], m[7], m[9])
	}
	r.Rows = Bag(r.Rows)
	return r
}

func ParseDiffCSV(out string) DiffRows {
	r := newDiffRows()
	if strings.TrimSpace(out) == "" {
		return r
	}
	rd := csv.NewReader(strings.NewReader(out))
	rd.FieldsPerRecord = -1
	recs, err := rd.ReadAll()
	if err != nil {
		r.fail("csv: %v", err)
		return r
	}
	for i, rec := range recs {
		if len(rec) != 6 {
			r.fail("diff csv record with %d fields", len(rec))
			continue
		}
		if i == 0 && rec[0] == "diff-type" {
			continue
		}
		r.add(rec[0], rec[1], rec[2], rec[3], rec[4], rec[5])
	}
	r.Rows = Bag(r.Rows)
	return r
}

func ParseDiffMD(out string) DiffRows {
	r := newDiffRows()
	for _, line := range strings.Split(out, "\n") {
		line = strings.TrimRight(line, "\r")
		if strings.TrimSpace(line) == "" || strings.HasPrefix(line, "|--") || strings.HasPrefix(line, "| diff-type |") {
			continue
		}
		if !strings.HasPrefix(line, "| ") || !strings.HasSuffix(line, " |") {
			r.fail("bad diff md line %q", line)
			continue
		}
		cells := strings.Split(line[2:len(line)-2], " | ")
		if len(cells) == 5 { // empty last cell: "|  |" leaves nothing between the separators
			cells = append(cells, "")
		}
		if len(cells) != 6 {
			r.fail("diff md row with %d cells: %q", len(cells), line)
			continue
		}
		r.add(cells[0], cells[1], cells[2], cells[3], cells[4], cells[5])
	}
	r.Rows = Bag(r.Rows)
	return r
}

var dirLabel = regexp.MustCompile(`^(.*) \(\S+: (.*)\)$`)

// ParseDiffDot parses the dot diff format; ref1 is the name of the first side as it appears in "(ref1: ...)".
func ParseDiffDot(out string) DiffRows {
	r := newDiffRows()
	if strings.TrimSpace(out) == "" {
		return r
	}
	inLegend := false
	for _, line := range strings.Split(out, "\n") {
		if strings.Contains(line, "subgraph cluster_legend") || strings.Contains(line, "\"cluster_legend\"") || strings.Contains(line, "label=\"Legend\"") {
			inLegend = true
		}
		if inLegend {
			continue
		}
		if m := dotEdge.FindStringSubmatch(line); m != nil {
			attrs := m[4]
			col := ""
			if i := strings.Index(attrs, `color="`); i >= 0 {
				col = attrs[i+7:]
				col = col[:strings.Index(col, `"`)]
			}
			switch col {
			case "grey":
				c, ok := CanonConn(m[3])
				if !ok {
					r.fail("bad connection text %q", m[3])
				}
				r.Unchanged = append(r.Unchanged, m[1]+"|"+m[2]+"|"+c)
			case "#008000":
				r.add("added", m[1], m[2], "No Connections", m[3], "")
			case "red2":
				r.add("removed", m[1], m[2], m[3], "No Connections", "")
			case "magenta":
				mm := dirLabel.FindStringSubmatch(m[3])
				if mm == nil {
					r.fail("bad changed label %q", m[3])
					continue
				}
				r.add("changed", m[1], m[2], mm[2], mm[1], "")
			default:
				r.fail("edge with unknown colour %q", line)
			}
			continue
		}
		if m := dotNode.FindStringSubmatch(line); m != nil {
			col := ""
			if i := strings.Index(m[3], `color="`); i >= 0 {
				col = m[3][i+7:]
				col = col[:strings.Index(col, `"`)]
			}
			kind := "persistent"
			switch col {
			case "#008000":
				kind = "new"
			case "red":
				kind = "removed"
			}
			r.Nodes = append(r.Nodes, m[1]+"|"+kind)
		}
	}
	r.Rows = Bag(r.Rows)
	r.Unchanged = Bag(r.Unchanged)
	sort.Strings(r.Nodes)
	return r
}

// ---------------------------------------------------------------------------------------------------
// Representative peers of the exposure sections ("what a workload is exposed to"), canonically:
//   entire                                 entire-cluster
//   <nsPart>/<podPart>                     nsPart: name:<ns> | all | sel{items}      podPart: all | sel{items}
//   items, sorted, joined by ';':          k=v        (matchLabels)        k|Op|v1 v2   (matchExpressions, values as given)
// CanonRepLabel parses the label the tool prints (txt / md / csv / json); RepFromAPI renders the structured API value.

// Req is one matchExpressions requirement.
type Req struct {
	Key  string
	Op   string
	Vals []string
}

const nsNameLabelKey = "kubernetes.io/metadata.name"

var reqText = regexp.MustCompile(`^\{Key:(.*),Operator:(\w+),Values:\[(.*)\],\}$`)

func splitDepth0(s string, sep byte) []string {
	var out []string
	depth, start := 0, 0
	for i := 0; i < len(s); i++ {
		switch s[i] {
		case '{', '[':
			depth++
		case '}', ']':
			depth--
		default:
			if s[i] == sep && depth == 0 {
				out = append(out, s[start:i])
				start = i + 1
			}
		}
	}
	return append(out, s[start:])
}

func canonItems(body string) (string, bool) {
	var items []string
	for _, it := range splitDepth0(body, ',') {
		if m := reqText.FindStringSubmatch(it); m != nil {
			items = append(items, m[1]+"|"+m[2]+"|"+m[3])
		} else if strings.Contains(it, "=") && !strings.ContainsAny(it, "{}[]") {
			items = append(items, it)
		} else {
			return "", false
		}
	}
	sort.Strings(items)
	return "sel{" + strings.Join(items, ";") + "}", true
}

func canonPart(part, allText, withText string, plainIsName bool) (string, bool) {
	if strings.HasPrefix(part, "[") && strings.HasSuffix(part, "]") {
		part = part[1 : len(part)-1]
	} else if plainIsName {
		if part == "" || strings.ContainsAny(part, "{}[] ") {
			return "", false
		}
		return "name:" + part, true
	}
	if part == allText {
		return "all", true
	}
	if strings.HasPrefix(part, withText+" {") && strings.HasSuffix(part, "}") {
		return canonItems(part[len(withText)+2 : len(part)-1])
	}
	return "", false
}

// CanonRepLabel canonicalises a printed exposure peer label.
func CanonRepLabel(label string) (string, bool) {
	if label == "entire-cluster" {
		return "entire", true
	}
	parts := splitDepth0(label, '/')
	if len(parts) != 2 {
		return "", false
	}
	ns, ok1 := canonPart(parts[0], "all namespaces", "namespace with", true)
	pod, ok2 := canonPart(parts[1], "all pods", "pod with", false)
	return ns + "/" + pod, ok1 && ok2
}

func selFromAPI(ml map[string]string, ex []Req) string {
	if len(ml) == 0 && len(ex) == 0 {
		return "all"
	}
	var items []string
	for k, v := range ml {
		items = append(items, k+"="+v)
	}
	for _, e := range ex {
		items = append(items, e.Key+"|"+e.Op+"|"+strings.Join(e.Vals, " "))
	}
	sort.Strings(items)
	return "sel{" + strings.Join(items, ";") + "}"
}

// RepFromAPI renders an exposure entry of the API canonically. A namespace selector that consists of the
// namespace-name label alone denotes that namespace by name.
func RepFromAPI(entire bool, nsML map[string]string, nsEx []Req, podML map[string]string, podEx []Req) string {
	if entire {
		return "entire"
	}
	ns := selFromAPI(nsML, nsEx)
	if n, ok := nsML[nsNameLabelKey]; ok && len(nsML) == 1 && len(nsEx) == 0 {
		ns = "name:" + n
	}
	return ns + "/" + selFromAPI(podML, podEx)
}
