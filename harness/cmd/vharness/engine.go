package main

import (
	"bufio"
	"encoding/json"
	"flag"
	"fmt"
	"math/rand"
	"os"
	"path/filepath"
	goruntime "runtime"
	"sort"
	"strconv"
	"strings"
	"sync"

	appsv1 "k8s.io/api/apps/v1"
	corev1 "k8s.io/api/core/v1"
	netv1 "k8s.io/api/networking/v1"
	"k8s.io/apimachinery/pkg/runtime"
	apisv1a "sigs.k8s.io/network-policy-api/apis/v1alpha1"
	"sigs.k8s.io/yaml"

	"github.com/np-guard/netpol-analyzer/pkg/netpol/eval"

	"verif/harness/run"
	"verif/harness/world"
)

var _ = appsv1.SchemeGroupVersion

// EngOp is one operation of an engine history (same shape as the TLA+ records of Engine.tla).
type EngOp struct {
	Op   string           `json:"op"`
	Nso  *nsRec           `json:"nso,omitempty"`
	Pod  *world.EnginePod `json:"pod,omitempty"`
	Np   *world.Netpol    `json:"np,omitempty"`
	Anp  *world.ANP       `json:"anp,omitempty"`
	Banp *world.BANP      `json:"banp,omitempty"`
	NS   string           `json:"ns"`
	Name string           `json:"name"`
	// SetRes: the arguments of one SetResources call (namespaces, policies, pods -- inserted in this order, the call stops at the first error)
	Nss  []nsRec           `json:"nss"`
	Nps  []world.Netpol    `json:"nps"`
	Pods []world.EnginePod `json:"pods"`
}

type nsRec struct {
	Name   string       `json:"name"`
	Labels world.Labels `json:"labels"`
}

type engInit struct {
	Ev         string `json:"ev"`
	ID         int    `json:"id"`
	M          int    `json:"M"`
	PointPorts []int  `json:"pointPorts"`
	NAddr      int    `json:"nAddr"`
	Conc       string `json:"conc"`
	Src        string `json:"src"`
}

type engOpEvent struct {
	Ev  string `json:"ev"`
	O   EngOp  `json:"o"`
	Res string `json:"res"` // ok | error | panic
	Msg string `json:"msg"`
}

type sweepQ struct {
	S []interface{} `json:"s"` // ["p", ns, name] | ["a", class, ""]
	D []interface{} `json:"d"`
	R [][]int       `json:"r"` // replies of the engine under test
	F [][]int       `json:"f"` // replies of a fresh engine built from the same current objects
}

type sweepEvent struct {
	Ev     string   `json:"ev"`
	Q      []sweepQ `json:"q"`
	Hits   int      `json:"hits"`   // cache hits so far (hook)
	Cached int      `json:"cached"` // number of cached verdicts (hook)
	Sorted []string `json:"sorted"` // names of sortedAdminNetpols in slice order (hook)
	Prios  []int    `json:"prios"`
}

func typed(o map[string]interface{}, out interface{}) {
	b, err := yaml.Marshal(o)
	if err != nil {
		panic(err)
	}
	if err := yaml.Unmarshal(b, out); err != nil {
		panic(err)
	}
}

// tracked current objects (by what the engine accepted)
type engState struct {
	nss  map[string]*nsRec
	pods map[string]*world.EnginePod
	nps  map[string]*world.Netpol
	anps map[string]*world.ANP
	banp *world.BANP
}

func newEngState() *engState {
	return &engState{nss: map[string]*nsRec{}, pods: map[string]*world.EnginePod{}, nps: map[string]*world.Netpol{}, anps: map[string]*world.ANP{}}
}

func toObject(c *world.Conc, o *EngOp) runtime.Object {
	switch o.Op {
	case "InsNs":
		n := &corev1.Namespace{}
		typed(c.NamespaceObj(o.Nso.Name, o.Nso.Labels), n)
		return n
	case "DelNs":
		n := &corev1.Namespace{}
		typed(c.NamespaceObj(o.Name, nil), n)
		return n
	case "InsPod":
		p := &corev1.Pod{}
		typed(c.PodObj(o.Pod), p)
		return p
	case "DelPod":
		p := &corev1.Pod{}
		typed(c.PodObj(&world.EnginePod{NS: o.NS, Name: o.Name}), p)
		return p
	case "InsNP":
		n := &netv1.NetworkPolicy{}
		typed(c.NetpolObj(o.Np), n)
		return n
	case "DelNP":
		n := &netv1.NetworkPolicy{}
		n.Name, n.Namespace = o.Name, o.NS
		return n
	case "InsANP":
		a := &apisv1a.AdminNetworkPolicy{}
		typed(c.ANPObj(o.Anp), a)
		return a
	case "DelANP":
		a := &apisv1a.AdminNetworkPolicy{}
		a.Name = o.Name
		return a
	case "InsBANP":
		b := &apisv1a.BaselineAdminNetworkPolicy{}
		typed(c.BANPObj(o.Banp), b)
		return b
	case "DelBANP":
		b := &apisv1a.BaselineAdminNetworkPolicy{}
		b.Name = o.Name
		return b
	}
	return nil
}

func applyOp(pe *eval.PolicyEngine, c *world.Conc, o *EngOp) (res, msg string) {
	defer func() {
		if r := recover(); r != nil {
			res, msg = "panic", fmt.Sprint(r)
		}
	}()
	if o.Op == "Clear" {
		pe.ClearResources()
		return "ok", ""
	}
	if o.Op == "SetRes" {
		var nss []*corev1.Namespace
		var nps []*netv1.NetworkPolicy
		var pods []*corev1.Pod
		for i := range o.Nss {
			n := &corev1.Namespace{}
			typed(c.NamespaceObj(o.Nss[i].Name, o.Nss[i].Labels), n)
			nss = append(nss, n)
		}
		for i := range o.Nps {
			n := &netv1.NetworkPolicy{}
			typed(c.NetpolObj(&o.Nps[i]), n)
			nps = append(nps, n)
		}
		for i := range o.Pods {
			p := &corev1.Pod{}
			typed(c.PodObj(&o.Pods[i]), p)
			pods = append(pods, p)
		}
		if err := pe.SetResources(nps, pods, nss); err != nil {
			return "error", err.Error()
		}
		return "ok", ""
	}
	obj := toObject(c, o)
	var err error
	if strings.HasPrefix(o.Op, "Ins") {
		err = pe.InsertObject(obj)
	} else {
		err = pe.DeleteObject(obj)
	}
	if err != nil {
		return "error", err.Error()
	}
	return "ok", ""
}

func (st *engState) track(o *EngOp, res string) {
	if o.Op == "SetRes" {
		// SetResources = inserts of the namespaces, then the policies, then the pods; it stops at the first error (a policy whose
		// name is taken). Whatever was inserted before stays -- tracked by the same rule, whatever the call returned.
		for i := range o.Nss {
			st.nss[o.Nss[i].Name] = &o.Nss[i]
		}
		for i := range o.Nps {
			k := o.Nps[i].NS + "/" + o.Nps[i].Name
			if _, taken := st.nps[k]; taken {
				return
			}
			st.nps[k] = &o.Nps[i]
		}
		for i := range o.Pods {
			st.pods[o.Pods[i].NS+"/"+o.Pods[i].Name] = &o.Pods[i]
		}
		return
	}
	if res != "ok" {
		return
	}
	switch o.Op {
	case "InsNs":
		st.nss[o.Nso.Name] = o.Nso
	case "DelNs":
		delete(st.nss, o.Name)
	case "InsPod":
		st.pods[o.Pod.NS+"/"+o.Pod.Name] = o.Pod
	case "DelPod":
		delete(st.pods, o.NS+"/"+o.Name)
	case "InsNP":
		st.nps[o.Np.NS+"/"+o.Np.Name] = o.Np
	case "DelNP":
		delete(st.nps, o.NS+"/"+o.Name)
	case "InsANP":
		st.anps[o.Anp.Name] = o.Anp
	case "DelANP":
		delete(st.anps, o.Name)
	case "InsBANP":
		st.banp = o.Banp
	case "DelBANP":
		if st.banp != nil && st.banp.Name == o.Name {
			st.banp = nil
		}
	case "Clear":
		*st = *newEngState()
	}
}

func sortedKeys[T any](m map[string]T) []string {
	ks := make([]string, 0, len(m))
	for k := range m {
		ks = append(ks, k)
	}
	sort.Strings(ks)
	return ks
}

// fresh builds a new engine holding the tracked current objects (ANPs by ascending priority).
func (st *engState) fresh(c *world.Conc) *eval.PolicyEngine {
	pe := eval.NewPolicyEngine()
	ins := func(o *EngOp) {
		if res, msg := applyOp(pe, c, o); res != "ok" {
			panic("fresh engine rejects a current object: " + o.Op + ": " + msg)
		}
	}
	for _, k := range sortedKeys(st.nss) {
		ins(&EngOp{Op: "InsNs", Nso: st.nss[k]})
	}
	for _, k := range sortedKeys(st.pods) {
		ins(&EngOp{Op: "InsPod", Pod: st.pods[k]})
	}
	for _, k := range sortedKeys(st.nps) {
		ins(&EngOp{Op: "InsNP", Np: st.nps[k]})
	}
	anps := sortedKeys(st.anps)
	sort.SliceStable(anps, func(i, j int) bool { return st.anps[anps[i]].Priority < st.anps[anps[j]].Priority })
	for _, k := range anps {
		ins(&EngOp{Op: "InsANP", Anp: st.anps[k]})
	}
	if st.banp != nil {
		ins(&EngOp{Op: "InsBANP", Banp: st.banp})
	}
	return pe
}

type engEndpoint struct {
	tag  string
	ns   string
	name string
	cls  int
	str  string
}

func sweepReplies(pe *eval.PolicyEngine, c *world.Conc, M int, s, d engEndpoint, salt int) (rows [][]int) {
	for _, proto := range run.Protos {
		row := make([]int, M)
		for n := 1; n <= M; n++ {
			lo, hi := c.PortLo(n), c.PortHi(n)
			res := -1
			for k, port := range []int{lo, hi} {
				pr := proto
				if (k+salt)%2 == 0 {
					pr = strings.ToLower(proto)
				}
				cd := func() (cd int) {
					defer func() {
						if r := recover(); r != nil {
							cd = 4 // panic inside a query
						}
					}()
					run.Tick()
					b, err := pe.CheckIfAllowed(s.str, d.str, pr, strconv.Itoa(port))
					if err != nil {
						return 2
					}
					if b {
						return 1
					}
					return 0
				}()
				if res == -1 {
					res = cd
				} else if res != cd {
					res = 3
				}
			}
			row[n-1] = res
		}
		rows = append(rows, row)
	}
	return rows
}

func doSweep(pe *eval.PolicyEngine, st *engState, c *world.Conc, w *world.World, salt int) sweepEvent {
	ev := sweepEvent{Ev: "Sweep", Q: []sweepQ{}, Sorted: []string{}, Prios: []int{}}
	var eps []engEndpoint
	for _, k := range sortedKeys(st.pods) {
		p := st.pods[k]
		eps = append(eps, engEndpoint{tag: "p", ns: p.NS, name: p.Name, str: k})
	}
	eps = append(eps, engEndpoint{tag: "p", ns: "ns1", name: "ghost", str: "ns1/ghost"})
	for a := 0; a < w.NAddr; a++ {
		ip, _ := c.RepAddr(w, a, salt+a)
		eps = append(eps, engEndpoint{tag: "a", cls: a, str: world.IPStr(ip)})
	}
	fresh := st.fresh(c)
	for _, s := range eps {
		for _, d := range eps {
			if s.tag == "a" && d.tag == "a" {
				continue
			}
			q := sweepQ{}
			if s.tag == "p" {
				q.S = []interface{}{"p", s.ns, s.name}
			} else {
				q.S = []interface{}{"a", s.cls, ""}
			}
			if d.tag == "p" {
				q.D = []interface{}{"p", d.ns, d.name}
			} else {
				q.D = []interface{}{"a", d.cls, ""}
			}
			q.R = sweepReplies(pe, c, w.M, s, d, salt)
			q.F = sweepReplies(fresh, c, w.M, s, d, salt)
			ev.Q = append(ev.Q, q)
		}
	}
	snap := pe.VerifSnapshot()
	ev.Hits, ev.Cached = snap.CacheHits, len(snap.CacheKeys)
	if snap.SortedANPs != nil {
		ev.Sorted = snap.SortedANPs
	}
	for _, p := range snap.ANPPrios {
		ev.Prios = append(ev.Prios, int(p))
	}
	return ev
}

// peekEvent: every memoised verdict reachable by a query of the sweep universe (pod pairs x protocol spelling x chunk end
// points), read through the hook without evaluating anything -- the real cache content projected on the abstract queries.
type peekEntry struct {
	S []interface{} `json:"s"`
	D []interface{} `json:"d"`
	K int           `json:"k"` // protocol index 1..3
	N int           `json:"n"` // port chunk
	V int           `json:"v"` // memoised verdict 0/1
}
type peekEvent struct {
	Ev string      `json:"ev"`
	C  []peekEntry `json:"c"`
}

func doPeek(pe *eval.PolicyEngine, st *engState, c *world.Conc, w *world.World) peekEvent {
	ev := peekEvent{Ev: "Peek", C: []peekEntry{}}
	keys := sortedKeys(st.pods)
	for _, sk := range keys {
		for _, dk := range keys {
			if sk == dk {
				continue // a pod to itself is answered before the cache is consulted
			}
			s, d := st.pods[sk], st.pods[dk]
			for k, proto := range run.Protos {
				for n := 1; n <= w.M; n++ {
					seen := map[int]bool{}
					for _, port := range []int{c.PortLo(n), c.PortHi(n)} {
						for _, pr := range []string{proto, strings.ToLower(proto)} {
							if cached, val := pe.VerifCachePeek(sk, dk, pr, strconv.Itoa(port)); cached {
								v := 0
								if val {
									v = 1
								}
								if !seen[v] {
									seen[v] = true
									ev.C = append(ev.C, peekEntry{S: []interface{}{"p", s.NS, s.Name}, D: []interface{}{"p", d.NS, d.Name}, K: k + 1, N: n, V: v})
								}
							}
						}
					}
				}
			}
		}
	}
	return ev
}

func replayHistory(em *emitter, id int, src string, ops []EngOp, seed int64) {
	w := &world.World{M: 3, PointPorts: []int{1, 2}, NAddr: 2}
	w.Normalize()
	conc := world.NewConc(w, seed)
	cb, _ := json.Marshal(conc)
	em.emit(engInit{Ev: "Init", ID: id, M: w.M, PointPorts: w.PointPorts, NAddr: w.NAddr, Conc: string(cb), Src: src})
	pe := eval.NewPolicyEngine()
	st := newEngState()
	for i := range ops {
		o := &ops[i]
		if o.Op == "Sweep" {
			em.emit(doSweep(pe, st, conc, w, i))
			em.emit(doPeek(pe, st, conc, w))
			continue
		}
		if o.Nss == nil {
			o.Nss = []nsRec{}
		}
		if o.Nps == nil {
			o.Nps = []world.Netpol{}
		}
		if o.Pods == nil {
			o.Pods = []world.EnginePod{}
		}
		res, msg := applyOp(pe, conc, o)
		st.track(o, res)
		em.emit(engOpEvent{Ev: "Op", O: *o, Res: res, Msg: msg})
		if res == "panic" {
			// the engine may be half-updated: stop this history here
			return
		}
		em.emit(doPeek(pe, st, conc, w))
	}
	em.emit(doSweep(pe, st, conc, w, len(ops)))
	em.emit(doPeek(pe, st, conc, w))
	if id%8 == 0 {
		goruntime.GC() // see runCase: file descriptors of the engine's cache-hit log are only released by finalisers
	}
}

func readHistories(path string) ([][]EngOp, error) {
	f, err := os.Open(path)
	if err != nil {
		return nil, err
	}
	defer f.Close()
	var hs [][]EngOp
	sc := bufio.NewScanner(f)
	sc.Buffer(make([]byte, 1<<20), 1<<28)
	for sc.Scan() {
		line := strings.TrimSpace(sc.Text())
		if !strings.HasPrefix(line, "\"HISTORY ") {
			continue
		}
		var s string
		if err := json.Unmarshal([]byte(line), &s); err != nil {
			return nil, err
		}
		var ops []EngOp
		if err := json.Unmarshal([]byte(s[len("HISTORY "):]), &ops); err != nil {
			return nil, fmt.Errorf("bad history: %v", err)
		}
		hs = append(hs, ops)
	}
	return hs, sc.Err()
}

// randomHistory: direction B -- a seeded driver over a larger universe than Engine.tla's catalogue.
func randomHistory(r *rand.Rand, n int) []EngOp {
	w := &world.World{M: 3, PointPorts: []int{1, 2}, NAddr: 2, Banp: world.BANP{Nil: true}}
	w.Namespaces = []world.Namespace{{Name: "ns1"}, {Name: "ns2"}, {Name: "ns3"}}
	w.Normalize()
	g := &world.G{R: r, O: world.GenOpts{M: 3, NAddr: 2}, W: w}
	nsNames := []string{"ns1", "ns2", "ns3"}
	owners := []string{"", "oa", "ob"}
	ownerLabels := map[string]world.Labels{}
	podNames := []string{"p1", "p2", "p3", "p4", "p5"}
	var ops []EngOp
	pickNs := func() string { return nsNames[r.Intn(len(nsNames))] }
	labels := func() world.Labels {
		l := world.Labels{}
		for i := r.Intn(3); i > 0; i-- {
			l[world.PodKeys[r.Intn(3)]] = world.PodVals[r.Intn(3)]
		}
		return l
	}
	nsl := func() world.Labels {
		l := world.Labels{}
		for i := r.Intn(3); i > 0; i-- {
			l[world.NsKeys[r.Intn(2)]] = world.NsVals[r.Intn(2)]
		}
		return l
	}
	// start populated
	for _, n := range nsNames {
		ops = append(ops, EngOp{Op: "InsNs", Nso: &nsRec{Name: n, Labels: nsl()}})
	}
	prios := r.Perm(12)
	for len(ops) < n {
		switch r.Intn(14) {
		case 0:
			ops = append(ops, EngOp{Op: "InsNs", Nso: &nsRec{Name: pickNs(), Labels: nsl()}})
		case 1:
			if r.Intn(3) == 0 {
				ops = append(ops, EngOp{Op: "DelNs", Name: pickNs()})
			}
		case 2, 3, 4:
			owner := owners[r.Intn(len(owners))]
			ns := pickNs()
			p := &world.EnginePod{NS: ns, Name: podNames[r.Intn(len(podNames))], Owner: owner, OwnerKind: "ReplicaSet", Labels: labels()}
			if owner != "" {
				// pods sharing an owner usually share a pod template, but need not (hand-written manifests, template updates)
				key := ns + "/" + owner
				if l, ok := ownerLabels[key]; ok && r.Intn(4) != 0 {
					p.Labels = l
				} else {
					ownerLabels[key] = p.Labels
				}
				p.Name = owner + "-" + p.Name
			}
			switch r.Intn(4) {
			case 0:
				p.Ports = []world.CPort{}
			case 1:
				p.Ports = []world.CPort{{Name: "http", Proto: "UDP", Port: 2}}
			case 2:
				p.Ports = []world.CPort{{Name: "http", Proto: "TCP", Port: 1}} // the usual name and protocol, another number
			default:
				p.Ports = []world.CPort{{Name: "http", Proto: "TCP", Port: 2}}
			}
			ops = append(ops, EngOp{Op: "InsPod", Pod: p})
		case 5:
			owner := owners[r.Intn(len(owners))]
			name := podNames[r.Intn(len(podNames))]
			if owner != "" {
				name = owner + "-" + name
			}
			ops = append(ops, EngOp{Op: "DelPod", NS: pickNs(), Name: name})
		case 6, 7:
			np := g.Netpol(r.Intn(4))
			ops = append(ops, EngOp{Op: "InsNP", Np: &np})
		case 8:
			ops = append(ops, EngOp{Op: "DelNP", NS: pickNs(), Name: fmt.Sprintf("np%d", r.Intn(4))})
		case 9:
			i := r.Intn(4)
			a := g.ANP(i, prios[i]*3)
			ops = append(ops, EngOp{Op: "InsANP", Anp: &a})
		case 10:
			ops = append(ops, EngOp{Op: "DelANP", Name: fmt.Sprintf("anp%d", r.Intn(4))})
		case 11:
			b := world.BANP{Nil: false, Name: "default", Subject: g.Subject()}
			if r.Intn(6) == 0 {
				b.Name = "other"
			}
			for k := r.Intn(3); k > 0; k-- {
				b.Ingress = append(b.Ingress, g.ARule(fmt.Sprintf("bi%d", k), true))
			}
			for k := r.Intn(3); k > 0; k-- {
				b.Egress = append(b.Egress, g.ARule(fmt.Sprintf("be%d", k), true))
			}
			ops = append(ops, EngOp{Op: "InsBANP", Banp: &b})
		case 12:
			ops = append(ops, EngOp{Op: "DelBANP", Name: []string{"default", "default", "other"}[r.Intn(3)]})
		case 13:
			ops = append(ops, EngOp{Op: "Sweep"})
		}
	}
	// normalise nested slices so that JSON never contains null
	for i := range ops {
		o := &ops[i]
		ww := &world.World{Banp: world.BANP{Nil: true}}
		if o.Np != nil {
			ww.Netpols = []world.Netpol{*o.Np}
		}
		if o.Anp != nil {
			ww.Anps = []world.ANP{*o.Anp}
		}
		if o.Banp != nil {
			ww.Banp = *o.Banp
		}
		ww.Normalize()
		if o.Np != nil {
			*o.Np = ww.Netpols[0]
		}
		if o.Anp != nil {
			*o.Anp = ww.Anps[0]
		}
		if o.Banp != nil {
			*o.Banp = ww.Banp
		}
		if o.Pod != nil {
			if o.Pod.Labels == nil {
				o.Pod.Labels = world.Labels{}
			}
			if o.Pod.Ports == nil {
				o.Pod.Ports = []world.CPort{}
			}
		}
		if o.Nso != nil && o.Nso.Labels == nil {
			o.Nso.Labels = world.Labels{}
		}
	}
	return ops
}

func cmdEngine(args []string) int {
	fs := flag.NewFlagSet("engine", flag.ExitOnError)
	seed := fs.Int64("seed", 1, "seed")
	hist := fs.String("histories", "", "file with TLC-emitted HISTORY lines")
	nrand := fs.Int("random", 0, "number of seeded random histories (direction B)")
	rlen := fs.Int("len", 60, "length of random histories")
	outDir := fs.String("out", "", "output directory for trace shards")
	shards := fs.Int("shards", 16, "shards")
	fs.Parse(args)
	if *outDir == "" {
		return 2
	}
	os.MkdirAll(*outDir, 0o755)
	type job struct {
		src string
		ops []EngOp
	}
	var jobs []job
	if *hist != "" {
		hs, err := readHistories(*hist)
		if err != nil {
			fmt.Fprintln(os.Stderr, err)
			return 2
		}
		for _, h := range hs {
			jobs = append(jobs, job{"tlc", h})
		}
	}
	r := rand.New(rand.NewSource(*seed))
	for i := 0; i < *nrand; i++ {
		jobs = append(jobs, job{"random", randomHistory(rand.New(rand.NewSource(r.Int63())), *rlen)})
	}
	// the engine writes cacheHitsLog.txt into the working directory on every cache hit
	cwd := scratchRoot()
	os.Chdir(cwd)
	defer os.RemoveAll(cwd)
	var wg sync.WaitGroup
	for s := 0; s < *shards; s++ {
		wg.Add(1)
		go func(s int) {
			defer wg.Done()
			em, err := newEmitter(filepath.Join(*outDir, fmt.Sprintf("shard%02d.ndjson", s)))
			if err != nil {
				panic(err)
			}
			defer em.close()
			for j := s; j < len(jobs); j += *shards {
				replayHistory(em, j, jobs[j].src, jobs[j].ops, *seed*7919+int64(j))
			}
		}(s)
	}
	wg.Wait()
	fmt.Printf("histories=%d\n", len(jobs))
	return 0
}

func init() {
	register("engine", "replay TLC histories / seeded random histories on a real eval.PolicyEngine and record traces (C15)", cmdEngine)
}
