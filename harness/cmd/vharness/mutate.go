package main

import (
	"bufio"
	"embed"
	"encoding/json"
	"flag"
	"fmt"
	"os"
	"os/exec"
	"path/filepath"
	"sort"
	"strconv"
	"strings"
	"sync"
	"time"

	"sigs.k8s.io/yaml"

	"github.com/np-guard/netpol-analyzer/pkg/manifests/fsscanner"
	"github.com/np-guard/netpol-analyzer/pkg/manifests/parser"
	"github.com/np-guard/netpol-analyzer/pkg/netpol/eval"

	"verif/harness/run"
	"verif/harness/world"
)

//go:embed seed/*.yaml
var seedFS embed.FS

type seedDoc struct {
	File string
	Idx  int
	Kind string
	Tree interface{}
}

func loadSeed() ([]seedDoc, []string) {
	ents, _ := seedFS.ReadDir("seed")
	var docs []seedDoc
	var files []string
	for _, e := range ents {
		b, _ := seedFS.ReadFile("seed/" + e.Name())
		files = append(files, e.Name())
		for _, part := range strings.Split(string(b), "\n---\n") {
			var tree interface{}
			if err := yaml.Unmarshal([]byte(part), &tree); err != nil {
				panic(err)
			}
			kind := ""
			if m, ok := tree.(map[string]interface{}); ok {
				kind, _ = m["kind"].(string)
			}
			docs = append(docs, seedDoc{File: e.Name(), Idx: len(docs), Kind: kind, Tree: tree})
		}
	}
	return docs, files
}

type schemaRow struct {
	Doc   int    `json:"doc"`
	Kind  string `json:"kind"`
	Path  string `json:"path"`
	Type  string `json:"type"`  // string | num | bool | list | map | null
	Class string `json:"class"` // "", cidr, ip, port, prio, count, proto, action, op, name
}

func leafClass(key string, parent string) string {
	switch key {
	case "cidr":
		return "cidr"
	case "hostIP", "podIP", "ip":
		return "ip"
	case "containerPort", "endPort", "start", "end", "number", "targetPort", "port":
		return "port"
	case "priority":
		return "prio"
	case "replicas", "parallelism":
		return "count"
	case "protocol":
		return "proto"
	case "action":
		return "action"
	case "operator":
		return "op"
	case "name", "namespace", "namedPort":
		return "name"
	case "kind":
		return "kindfield"
	}
	if parent == "except" {
		return "cidr"
	}
	return ""
}

func walk(doc int, kind string, path string, key string, parent string, v interface{}, out *[]schemaRow) {
	row := schemaRow{Doc: doc, Kind: kind, Path: path, Class: leafClass(key, parent)}
	switch x := v.(type) {
	case map[string]interface{}:
		row.Type = "map"
		if path != "" {
			*out = append(*out, row)
		}
		keys := make([]string, 0, len(x))
		for k := range x {
			keys = append(keys, k)
		}
		sort.Strings(keys)
		for _, k := range keys {
			p := k
			if path != "" {
				p = path + "." + k
			}
			walk(doc, kind, p, k, key, x[k], out)
		}
	case []interface{}:
		row.Type = "list"
		*out = append(*out, row)
		for i, e := range x {
			walk(doc, kind, fmt.Sprintf("%s[%d]", path, i), "", key, e, out)
		}
	case string:
		row.Type = "string"
		*out = append(*out, row)
	case float64, int, int64:
		row.Type = "num"
		*out = append(*out, row)
	case bool:
		row.Type = "bool"
		*out = append(*out, row)
	default:
		row.Type = "null"
		*out = append(*out, row)
	}
}

type mutation struct {
	Doc  int    `json:"doc"`
	Path string `json:"path"`
	Op   string `json:"op"`  // drop | null | retype | empty | foreign
	Arg  string `json:"arg"` // retype: string|num|bool|list|map ; foreign: the value
}

type mutCase struct {
	Muts []mutation `json:"muts"`
	File int        `json:"file"` // file-level operation on the file-th seed file (0 = none)
	Fop  string     `json:"fop"`
}

type mutEvent struct {
	Ev     string            `json:"ev"`
	ID     int               `json:"id"`
	Case   mutCase           `json:"case"`
	Runs   map[string]string `json:"runs"` // list | exposure | diff1 | diff2 | eval | cli-list | cli-diff | cli-eval -> result | error | panic | timeout
	Detail string            `json:"detail"`
}

func splitPath(p string) []string {
	var toks []string
	cur := ""
	for i := 0; i < len(p); i++ {
		switch p[i] {
		case '.':
			if cur != "" {
				toks = append(toks, cur)
			}
			cur = ""
		case '[':
			if cur != "" {
				toks = append(toks, cur)
			}
			cur = "["
		case ']':
			toks = append(toks, cur)
			cur = ""
		default:
			cur += string(p[i])
		}
	}
	if cur != "" {
		toks = append(toks, cur)
	}
	return toks
}

func deepCopy(v interface{}) interface{} {
	b, _ := json.Marshal(v)
	var r interface{}
	json.Unmarshal(b, &r)
	return r
}

func retyped(arg string) interface{} {
	switch arg {
	case "string":
		return "str"
	case "num":
		return 7
	case "bool":
		return true
	case "list":
		return []interface{}{"x", 1}
	case "map":
		return map[string]interface{}{"k": "v"}
	}
	return nil
}

func foreignValue(arg string) interface{} {
	if n, err := strconv.Atoi(arg); err == nil {
		return n
	}
	return arg
}

// applyMut mutates tree in place (returns the new root).
func applyMut(root interface{}, m mutation) interface{} {
	toks := splitPath(m.Path)
	var newVal interface{}
	del := false
	switch m.Op {
	case "drop":
		del = true
	case "null":
		newVal = nil
	case "retype":
		newVal = retyped(m.Arg)
	case "empty":
		newVal = ""
	case "foreign":
		newVal = foreignValue(m.Arg)
	}
	var rec func(cur interface{}, k int) interface{}
	rec = func(cur interface{}, k int) interface{} {
		t := toks[k]
		last := k == len(toks)-1
		if strings.HasPrefix(t, "[") {
			idx, _ := strconv.Atoi(t[1:])
			l, ok := cur.([]interface{})
			if !ok || idx >= len(l) {
				return cur
			}
			if last {
				if del {
					return append(append([]interface{}{}, l[:idx]...), l[idx+1:]...)
				}
				l[idx] = newVal
				return l
			}
			l[idx] = rec(l[idx], k+1)
			return l
		}
		mm, ok := cur.(map[string]interface{})
		if !ok {
			return cur
		}
		if last {
			if del {
				delete(mm, t)
			} else {
				mm[t] = newVal
			}
			return mm
		}
		if child, ok := mm[t]; ok {
			mm[t] = rec(child, k+1)
		}
		return mm
	}
	return rec(root, 0)
}

func renderDocs(docs []seedDoc, files []string, dropAdmin bool) map[string]string {
	out := map[string]string{}
	for _, f := range files {
		var parts []string
		for _, d := range docs {
			if d.File != f {
				continue
			}
			if dropAdmin && (d.Kind == "AdminNetworkPolicy" || d.Kind == "BaselineAdminNetworkPolicy") {
				continue
			}
			b, err := yaml.Marshal(d.Tree)
			if err != nil {
				b = []byte("{}\n")
			}
			parts = append(parts, string(b))
		}
		if len(parts) > 0 {
			out[f] = strings.Join(parts, "---\n")
		}
	}
	return out
}

func fileOp(content, fop string, id int) string {
	switch fop {
	case "truncate":
		n := len(content) * (1 + id%7) / 8
		return content[:n]
	case "binary":
		return "\x00\x01\xff\xfe\x7fELF" + content
	case "tabs":
		return strings.Replace(content, "\n  ", "\n\t", 3+id%5)
	case "empty":
		return ""
	case "dupkeys":
		return strings.Replace(content, "metadata:\n", "metadata:\n  name: dup\n  name: dup2\n", 1) + "\nkind: Again\nkind: Twice\n"
	case "sepnoise":
		return "---\n---\n# comment only\n---\n" + strings.Replace(content, "\n---\n", "\n---\n---\n   \n---\n", -1) + "\n---\n"
	case "anchors":
		return "x-anchor: &a {a: &b [*b]}\n" + content
	case "deep":
		return strings.Repeat("a: [", 400) + strings.Repeat("]", 400) + "\n---\n" + content
	}
	return content
}

func writeFiles(dir string, m map[string]string) {
	os.RemoveAll(dir)
	os.MkdirAll(dir, 0o755)
	for f, c := range m {
		os.WriteFile(filepath.Join(dir, f), []byte(c), 0o644)
	}
}

// guarded runs f with recover and a timeout; returns result | error | panic | timeout and a detail.
func guarded(f func() error) (string, string) {
	type res struct {
		out, detail string
	}
	ch := make(chan res, 1)
	go func() {
		defer func() {
			if r := recover(); r != nil {
				ch <- res{"panic", fmt.Sprint(r)}
			}
		}()
		if err := f(); err != nil {
			ch <- res{"error", ""}
			return
		}
		ch <- res{"result", ""}
	}()
	select {
	case r := <-ch:
		return r.out, r.detail
	case <-time.After(30 * time.Second):
		return "timeout", ""
	}
}

func evalSweep(dir string) error {
	rList, _ := fsscanner.GetResourceInfosFromDirPath([]string{dir}, true, false)
	objects, _ := parser.ResourceInfoListToK8sObjectsList(rList, run.Quiet{}, true)
	pe, err := eval.NewPolicyEngineWithObjects(objects)
	if err != nil {
		return err
	}
	eps := []string{"ns1/pod-a", "ns2/pod-b", "ns1/dep-1", "ns2/pod-l", "10.1.2.3", "8.8.8.8"}
	var firstErr error
	for _, s := range eps {
		for _, d := range eps {
			for _, pr := range []string{"tcp", "UDP", "sctp"} {
				for _, port := range []string{"53", "80", "8080", "8500"} {
					if _, err := pe.CheckIfAllowed(s, d, pr, port); err != nil && firstErr == nil {
						firstErr = err
					}
				}
			}
		}
	}
	// updates on the live engine with the parsed objects (delete then re-insert)
	for i := range objects {
		o := objects[i]
		switch o.Kind {
		case parser.Pod:
			pe.DeleteObject(o.Pod)
			pe.InsertObject(o.Pod)
		case parser.Namespace:
			pe.DeleteObject(o.Namespace)
			pe.InsertObject(o.Namespace)
		case parser.NetworkPolicy:
			pe.DeleteObject(o.NetworkPolicy)
			pe.InsertObject(o.NetworkPolicy)
		}
	}
	return firstErr
}

func runMutation(em *emitter, root string, id int, c mutCase, seed []seedDoc, files []string, seedDir string, bin string) {
	docs := make([]seedDoc, len(seed))
	for i, d := range seed {
		docs[i] = seedDoc{File: d.File, Idx: d.Idx, Kind: d.Kind, Tree: deepCopy(d.Tree)}
	}
	for _, m := range c.Muts {
		if m.Doc >= 0 && m.Doc < len(docs) {
			docs[m.Doc].Tree = applyMut(docs[m.Doc].Tree, m)
		}
	}
	full := renderDocs(docs, files, false)
	noAdmin := renderDocs(docs, files, true)
	if c.File > 0 && c.File <= len(files) {
		f := files[c.File-1]
		full[f] = fileOp(full[f], c.Fop, id)
		if _, ok := noAdmin[f]; ok {
			noAdmin[f] = fileOp(noAdmin[f], c.Fop, id)
		}
	}
	dir, xdir := filepath.Join(root, "mut"), filepath.Join(root, "mutx")
	writeFiles(dir, full)
	writeFiles(xdir, noAdmin)
	w := &world.World{M: 3, NAddr: 2}
	w.Normalize()
	conc := world.NewConc(w, 1)
	ev := mutEvent{Ev: "Mut", ID: id, Case: c, Runs: map[string]string{}}
	note := func(name, out, detail string) {
		ev.Runs[name] = out
		if detail != "" && ev.Detail == "" {
			ev.Detail = name + ": " + detail
			if len(ev.Detail) > 300 {
				ev.Detail = ev.Detail[:300]
			}
		}
	}
	listRun := func(d string, o run.ListOpts) func() error {
		return func() error {
			obs, _, _ := run.List(d, w, conc, o)
			if obs.Outcome == "panic" {
				panic(obs.ErrMsg)
			}
			if obs.Outcome == "error" {
				return fmt.Errorf("error")
			}
			return nil
		}
	}
	diffRun := func(a, b string, stop bool, format string) func() error {
		return func() error {
			obs, _ := run.Diff(a, b, w, conc, stop, format)
			if obs.Outcome == "panic" {
				panic(obs.ErrMsg)
			}
			if obs.Outcome == "error" {
				return fmt.Errorf("error")
			}
			return nil
		}
	}
	o, d := guarded(listRun(dir, run.ListOpts{}))
	note("list", o, d)
	o, d = guarded(listRun(dir, run.ListOpts{StopOnError: true, Format: "dot"}))
	note("list-stop-dot", o, d)
	o, d = guarded(listRun(xdir, run.ListOpts{Exposure: true}))
	note("exposure", o, d)
	o, d = guarded(diffRun(dir, seedDir, false, ""))
	note("diff1", o, d)
	o, d = guarded(diffRun(seedDir, dir, false, ""))
	note("diff2", o, d)
	// stop-on-error takes other paths through the analyzers (results handed back early)
	o, d = guarded(diffRun(dir, seedDir, true, "md"))
	note("diff1-stop", o, d)
	o, d = guarded(diffRun(seedDir, dir, true, "csv"))
	note("diff2-stop", o, d)
	o, d = guarded(listRun(xdir, run.ListOpts{Exposure: true, StopOnError: true, Format: "json"}))
	note("exposure-stop-json", o, d)
	o, d = guarded(func() error { return evalSweep(dir) })
	note("eval", o, d)
	if bin != "" {
		cli := func(args ...string) (string, string) {
			cmd := exec.Command(bin, args...)
			cmd.Dir = root
			out, err := cmd.CombinedOutput()
			text := string(out)
			if strings.Contains(text, "panic:") || strings.Contains(text, "goroutine 1 [") {
				i := strings.Index(text, "panic:")
				if i < 0 {
					i = 0
				}
				return "panic", head(text[i:])
			}
			if err != nil {
				return "error", ""
			}
			return "result", ""
		}
		o, d = cli("list", "--dirpath", dir, "-q")
		note("cli-list", o, d)
		o, d = cli("list", "--dirpath", xdir, "-q", "--exposure", "-o", "json")
		note("cli-exposure", o, d)
		o, d = cli("diff", "--dir1", dir, "--dir2", seedDir, "-q", "-o", "md")
		note("cli-diff", o, d)
		o, d = cli("eval", "--dirpath", dir, "-q", "-s", "pod-a", "-n", "ns1", "-d", "pod-b", "--destination-namespace", "ns2", "-p", "8080")
		note("cli-eval", o, d)
	}
	em.emit(ev)
}

func cmdMutate(args []string) int {
	fs := flag.NewFlagSet("mutate", flag.ExitOnError)
	schema := fs.String("schema", "", "write the field schema of the seed manifests (ndjson) to this file and exit")
	cases := fs.String("cases", "", "file with TLC-emitted CASE lines of Mutation.tla")
	bin := fs.String("bin", "", "also run the built binary (k8snetpolicy)")
	outDir := fs.String("out", "", "output dir")
	shards := fs.Int("shards", 16, "shards")
	fs.Parse(args)
	seed, files := loadSeed()
	if *schema != "" {
		var rows []schemaRow
		for _, d := range seed {
			walk(d.Idx, d.Kind, "", "", "", d.Tree, &rows)
		}
		f, err := os.Create(*schema)
		if err != nil {
			fmt.Fprintln(os.Stderr, err)
			return 2
		}
		w := bufio.NewWriter(f)
		// first line: the files
		hb, _ := json.Marshal(map[string]interface{}{"doc": -1, "kind": "FILES", "path": strings.Join(files, ","), "type": strconv.Itoa(len(files)), "class": ""})
		w.Write(hb)
		w.WriteByte('\n')
		for _, r := range rows {
			b, _ := json.Marshal(r)
			w.Write(b)
			w.WriteByte('\n')
		}
		w.Flush()
		f.Close()
		fmt.Printf("paths=%d files=%d\n", len(rows), len(files))
		return 0
	}
	os.MkdirAll(*outDir, 0o755)
	f, err := os.Open(*cases)
	if err != nil {
		fmt.Fprintln(os.Stderr, err)
		return 2
	}
	var cs []mutCase
	sc := bufio.NewScanner(f)
	sc.Buffer(make([]byte, 1<<20), 1<<26)
	for sc.Scan() {
		line := strings.TrimSpace(sc.Text())
		if !strings.HasPrefix(line, "\"CASE ") {
			continue
		}
		var s string
		if err := json.Unmarshal([]byte(line), &s); err != nil {
			fmt.Fprintln(os.Stderr, err)
			return 2
		}
		var c mutCase
		if err := json.Unmarshal([]byte(s[len("CASE "):]), &c); err != nil {
			fmt.Fprintln(os.Stderr, err, s[:200])
			return 2
		}
		if c.Muts == nil {
			c.Muts = []mutation{}
		}
		cs = append(cs, c)
	}
	f.Close()
	root := scratchRoot()
	defer os.RemoveAll(root)
	os.Chdir(root)
	seedDir := filepath.Join(root, "seed")
	writeFiles(seedDir, renderDocs(seed, files, false))
	var wg sync.WaitGroup
	for s := 0; s < *shards; s++ {
		wg.Add(1)
		go func(s int) {
			defer wg.Done()
			em, err := newEmitter(filepath.Join(*outDir, fmt.Sprintf("shard%02d.ndjson", s)))
			if err != nil {
				panic(err)
			}
			defer em.close()
			for k := s; k < len(cs); k += *shards {
				runMutation(em, filepath.Join(root, fmt.Sprintf("m%02d", s)), k, cs[k], seed, files, seedDir, *bin)
			}
		}(s)
	}
	wg.Wait()
	fmt.Printf("cases=%d\n", len(cs))
	return 0
}

func init() {
	register("mutate", "apply the mutations enumerated by Mutation.tla to the seed manifests and run list / exposure / diff / eval on them (C12)", cmdMutate)
}
