// vharness: conformance harness binding the TLA+ specifications in /verif/specs to the code in /repo.
// Sub-commands either replay cases produced by TLC on the real code or record executions of the real
// code as ndjson traces that the trace specifications validate. See /verif/DESIGN.md.
package main

import (
	"fmt"
	"os"
)

type command struct {
	name string
	help string
	run  func(args []string) int
}

var commands []command

func register(name, help string, run func(args []string) int) {
	commands = append(commands, command{name, help, run})
}

func main() {
	if len(os.Args) < 2 {
		usage()
		os.Exit(2)
	}
	for _, c := range commands {
		if c.name == os.Args[1] {
			os.Exit(c.run(os.Args[2:]))
		}
	}
	usage()
	os.Exit(2)
}

func usage() {
	fmt.Fprintln(os.Stderr, "usage: vharness <command> [flags]")
	for _, c := range commands {
		fmt.Fprintf(os.Stderr, "  %-18s %s\n", c.name, c.help)
	}
}
