package main

import (
	"bufio"
	"encoding/json"
	"flag"
	"fmt"
	"os"
	"path/filepath"
	"strings"
	"sync"

	"verif/harness/run"
	"verif/harness/world"
)

type conflictCase struct {
	Kind  string `json:"kind"`
	N     int    `json:"n"`
	I     int    `json:"i"`
	J     int    `json:"j"`
	Fam   string `json:"fam"`
	Prios []int  `json:"prios"`
	// ownerLabels only: further pods of the owner agreeing with the non-deviating pod; whether the deviating pod comes first
	Sib      int    `json:"sib"`
	DevFirst bool   `json:"devFirst"`
	Dev      string `json:"dev"` // how the deviating pod's labels differ: value | extraKey | extraEmptyKey
	// admin-policy conflicts: the shape of the conflicting policies: 0 = with an ingress rule, 1 = the one at position i has no
	// rules at all, 2 = the one at position j (for single-resource conflicts: i) has no rules, 3 = both, 4 = the one at i has only an egress rule
	Shape int `json:"shape"`
}

type conflictRun struct {
	Outcome   string   `json:"outcome"`
	ErrClass  string   `json:"errClass"`
	Msg       string   `json:"msg"`
	Fatal     bool     `json:"fatal"` // a fatal entry is present in Errors()
	HasResult bool     `json:"hasResult"`
	Mentioned []string `json:"mentioned"` // conflicting resource names that appear in the error message
}

type conflictEvent struct {
	Ev    string       `json:"ev"`
	ID    int          `json:"id"`
	Case  conflictCase `json:"case"`
	Names []string     `json:"names"`
	List  conflictRun  `json:"list"`
	Diff1 conflictRun  `json:"diff1"` // conflict in dir1
	Diff2 conflictRun  `json:"diff2"` // conflict in dir2
}

// anpDocX: an AdminNetworkPolicy with (shape 0) one ingress rule, (1) no rules at all, (2) only an egress rule
func anpDocX(name string, prio, shape int) string {
	switch shape {
	case 1:
		return fmt.Sprintf(`apiVersion: policy.networking.k8s.io/v1alpha1
kind: AdminNetworkPolicy
metadata:
  name: %s
spec:
  priority: %d
  subject:
    namespaces: {}
`, name, prio)
	case 2:
		return fmt.Sprintf(`apiVersion: policy.networking.k8s.io/v1alpha1
kind: AdminNetworkPolicy
metadata:
  name: %s
spec:
  priority: %d
  subject:
    pods:
      namespaceSelector: {}
      podSelector:
        matchLabels:
          app: nobody
  egress:
  - name: e
    action: Pass
    to:
    - namespaces: {}
`, name, prio)
	}
	return anpDoc(name, prio)
}

// banpDocX: shape 1 = a BaselineAdminNetworkPolicy without rules
func banpDocX(name string, shape int) string {
	if shape == 1 {
		return fmt.Sprintf(`apiVersion: policy.networking.k8s.io/v1alpha1
kind: BaselineAdminNetworkPolicy
metadata:
  name: %s
spec:
  subject:
    namespaces: {}
`, name)
	}
	return banpDoc(name)
}

func anpDoc(name string, prio int) string {
	return fmt.Sprintf(`apiVersion: policy.networking.k8s.io/v1alpha1
kind: AdminNetworkPolicy
metadata:
  name: %s
spec:
  priority: %d
  subject:
    namespaces: {}
  ingress:
  - name: r
    action: Allow
    from:
    - namespaces: {}
    ports:
    - portNumber:
        protocol: TCP
        port: 80
`, name, prio)
}

func banpDoc(name string) string {
	return fmt.Sprintf(`apiVersion: policy.networking.k8s.io/v1alpha1
kind: BaselineAdminNetworkPolicy
metadata:
  name: %s
spec:
  subject:
    namespaces: {}
  ingress:
  - name: b
    action: Deny
    from:
    - namespaces: {}
    ports:
    - portNumber:
        protocol: UDP
        port: 53
`, name)
}

const npDupDoc = `apiVersion: networking.k8s.io/v1
kind: NetworkPolicy
metadata:
  name: np-dup
  namespace: ns1
spec:
  podSelector: {}
  ingress:
  - from:
    - podSelector: {}
`

func ownedPodDoc(name, label string) string { return ownedPodDocX(name, label, "") }

// extra: a further label line ("" = none), e.g. `canary: ""`
func ownedPodDocX(name, label, extra string) string {
	if extra != "" {
		extra = "\n    " + extra
	}
	return fmt.Sprintf(`apiVersion: v1
kind: Pod
metadata:
  name: %s
  namespace: ns1
  labels:
    app: %s%s
  ownerReferences:
  - apiVersion: apps/v1
    kind: ReplicaSet
    name: own
    uid: 00000000-0000-0000-0000-000000000000
    controller: true
spec:
  containers:
  - name: c
    image: img
`, name, label, extra)
}

const baseDocs = `apiVersion: v1
kind: Namespace
metadata:
  name: ns1
  labels:
    team: x
---
apiVersion: apps/v1
kind: Deployment
metadata:
  name: d1
  namespace: ns1
spec:
  selector:
    matchLabels:
      app: a
  template:
    metadata:
      labels:
        app: a
    spec:
      containers:
      - name: c
        image: img
---
apiVersion: apps/v1
kind: Deployment
metadata:
  name: d2
  namespace: ns2
spec:
  replicas: 2
  selector:
    matchLabels:
      app: b
  template:
    metadata:
      labels:
        app: b
    spec:
      containers:
      - name: c
        image: img
`

// materialise returns the ordered documents of the case and the names of the resources in conflict.
func materialise(c conflictCase, withConflict bool) (docs []string, names []string) {
	type slot struct {
		name  string
		prio  int
		shape int
	}
	slots := make([]slot, c.N)
	for k := 0; k < c.N; k++ {
		slots[k] = slot{fmt.Sprintf("anp-%03d", k+1), c.Prios[k], 0}
	}
	extra := map[int][]string{} // docs inserted before slot position (1-based)
	if withConflict {
		i, j := c.I-1, c.J-1
		// shapes of the policies in conflict (see conflictCase.Shape)
		shapeI, shapeJ := 0, 0
		switch c.Shape {
		case 1:
			shapeI = 1
		case 2:
			shapeJ = 1
			if c.Kind == "priorityLow" || c.Kind == "priorityHigh" || c.Kind == "banpNotDefault" {
				shapeI = 1
			}
		case 3:
			shapeI, shapeJ = 1, 1
		case 4:
			shapeI = 2
		}
		switch c.Kind {
		case "samePriority":
			slots[j].prio = slots[i].prio
			names = []string{slots[i].name, slots[j].name}
			slots[i].shape, slots[j].shape = shapeI, shapeJ
		case "priorityLow":
			slots[i].prio = -1 - c.N
			names = []string{slots[i].name}
			slots[i].shape = shapeI
		case "priorityHigh":
			slots[i].prio = 1001 + c.N
			names = []string{slots[i].name}
			slots[i].shape = shapeI
		case "dupANPName":
			slots[j].name = slots[i].name
			names = []string{slots[i].name}
			slots[i].shape, slots[j].shape = shapeI, shapeJ
		case "dupNPName":
			extra[c.I] = append(extra[c.I], npDupDoc)
			extra[c.J] = append(extra[c.J], npDupDoc)
			names = []string{"ns1/np-dup"}
		case "twoBANPs":
			extra[c.I] = append(extra[c.I], banpDocX("default", shapeI%2))
			extra[c.J] = append(extra[c.J], banpDocX("default", shapeJ%2))
			names = []string{}
		case "banpNotDefault":
			extra[c.I] = append(extra[c.I], banpDocX("other", shapeI%2))
			names = []string{}
		case "ownerLabels":
			// the deviating pod (label b) at one position, the agreeing pods (label a) at the other
			devPos, sibPos := c.J, c.I
			if c.DevFirst {
				devPos, sibPos = c.I, c.J
			}
			extra[sibPos] = append(extra[sibPos], ownedPodDoc("own-aaa", "a"))
			for k := 0; k < c.Sib; k++ {
				extra[sibPos] = append(extra[sibPos], ownedPodDoc(fmt.Sprintf("own-aa%d", k), "a"))
			}
			switch c.Dev {
			case "extraKey":
				extra[devPos] = append(extra[devPos], ownedPodDocX("own-bbb", "a", `canary: "yes"`))
			case "extraEmptyKey":
				extra[devPos] = append(extra[devPos], ownedPodDocX("own-bbb", "a", `canary: ""`))
			default:
				extra[devPos] = append(extra[devPos], ownedPodDoc("own-bbb", "b"))
			}
			names = []string{"ns1/own"}
		}
	}
	if names == nil {
		names = []string{}
	}
	docs = append(docs, baseDocs)
	for k := 0; k < c.N; k++ {
		docs = append(docs, extra[k+1]...)
		docs = append(docs, anpDocX(slots[k].name, slots[k].prio, slots[k].shape))
	}
	return docs, names
}

func writeDocs(dir string, docs []string, oneFile bool) {
	os.RemoveAll(dir)
	os.MkdirAll(dir, 0o755)
	if oneFile {
		os.WriteFile(filepath.Join(dir, "all.yaml"), []byte(strings.Join(docs, "---\n")), 0o644)
		return
	}
	for k, d := range docs {
		os.WriteFile(filepath.Join(dir, fmt.Sprintf("d%04d.yaml", k)), []byte(d), 0o644)
	}
}

func mentioned(msg string, names []string) []string {
	res := []string{}
	for _, n := range names {
		if strings.Contains(msg, n) {
			res = append(res, n)
		}
	}
	return res
}

func hasFatal(errs []run.ErrObs) bool {
	for _, e := range errs {
		if e.Fatal {
			return true
		}
	}
	return false
}

func runConflict(em *emitter, dir string, id int, c conflictCase) {
	w := &world.World{M: 3, NAddr: 2}
	w.Normalize()
	conc := world.NewConc(w, int64(id)+1)
	docs, names := materialise(c, true)
	clean, _ := materialise(c, false)
	cdir, kdir := filepath.Join(dir, "conflict"), filepath.Join(dir, "clean")
	writeDocs(cdir, docs, id%2 == 0)
	writeDocs(kdir, clean, id%3 == 0)
	ev := conflictEvent{Ev: "Conflict", ID: id, Case: c, Names: names}
	lo, _, _ := run.List(cdir, w, conc, run.ListOpts{})
	ev.List = conflictRun{Outcome: lo.Outcome, ErrClass: lo.ErrClass, Msg: lo.ErrMsg, Fatal: hasFatal(lo.Errors),
		HasResult: lo.Outcome == "ok" && len(lo.Conns) > 0, Mentioned: mentioned(lo.ErrMsg, names)}
	d1, _ := run.Diff(cdir, kdir, w, conc, false, "")
	ev.Diff1 = conflictRun{Outcome: d1.Outcome, ErrClass: d1.ErrClass, Msg: d1.ErrMsg, Fatal: hasFatal(d1.Errors),
		HasResult: d1.Outcome == "ok" && !d1.NilDiff, Mentioned: mentioned(d1.ErrMsg, names)}
	d2, _ := run.Diff(kdir, cdir, w, conc, false, "")
	ev.Diff2 = conflictRun{Outcome: d2.Outcome, ErrClass: d2.ErrClass, Msg: d2.ErrMsg, Fatal: hasFatal(d2.Errors),
		HasResult: d2.Outcome == "ok" && !d2.NilDiff, Mentioned: mentioned(d2.ErrMsg, names)}
	em.emit(ev)
}

func cmdConflict(args []string) int {
	fs := flag.NewFlagSet("conflict", flag.ExitOnError)
	cases := fs.String("cases", "", "file with TLC-emitted CASE lines of Conflict.tla")
	outDir := fs.String("out", "", "output dir")
	shards := fs.Int("shards", 16, "shards")
	fs.Parse(args)
	os.MkdirAll(*outDir, 0o755)
	f, err := os.Open(*cases)
	if err != nil {
		fmt.Fprintln(os.Stderr, err)
		return 2
	}
	var cs []conflictCase
	sc := bufio.NewScanner(f)
	sc.Buffer(make([]byte, 1<<20), 1<<26)
	for sc.Scan() {
		line := strings.TrimSpace(sc.Text())
		if !strings.HasPrefix(line, "\"CASE ") {
			continue
		}
		var s string
		if err := json.Unmarshal([]byte(line), &s); err != nil {
			fmt.Fprintln(os.Stderr, err)
			return 2
		}
		var c conflictCase
		if err := json.Unmarshal([]byte(s[len("CASE "):]), &c); err != nil {
			fmt.Fprintln(os.Stderr, err)
			return 2
		}
		cs = append(cs, c)
	}
	f.Close()
	root := scratchRoot()
	defer os.RemoveAll(root)
	var wg sync.WaitGroup
	for s := 0; s < *shards; s++ {
		wg.Add(1)
		go func(s int) {
			defer wg.Done()
			em, err := newEmitter(filepath.Join(*outDir, fmt.Sprintf("shard%02d.ndjson", s)))
			if err != nil {
				panic(err)
			}
			defer em.close()
			for k := s; k < len(cs); k += *shards {
				runConflict(em, filepath.Join(root, fmt.Sprintf("c%02d", s)), k, cs[k])
			}
		}(s)
	}
	wg.Wait()
	fmt.Printf("cases=%d\n", len(cs))
	return 0
}

func init() {
	register("conflict", "materialise the conflict cases of Conflict.tla, run list and diff on them and record the outcomes (C19)", cmdConflict)
}
