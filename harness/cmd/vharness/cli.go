package main

import (
	"bufio"
	"bytes"
	"encoding/json"
	"flag"
	"fmt"
	"math/rand"
	"os"
	"os/exec"
	"path/filepath"
	"sort"
	"strings"
	"sync"

	"github.com/np-guard/netpol-analyzer/pkg/manifests/fsscanner"
	"github.com/np-guard/netpol-analyzer/pkg/netpol/connlist"
	"github.com/np-guard/netpol-analyzer/pkg/netpol/diff"

	"verif/harness/run"
	"verif/harness/world"
)

type cliCfg struct {
	Cmd      string `json:"cmd"`
	Fmt      string `json:"fmt"`
	Exposure bool   `json:"exposure"`
	Focus    string `json:"focus"`
	Fail     bool   `json:"fail"`
	Verb     string `json:"verb"`
	File     bool   `json:"file"`
	Dir      string `json:"dir"`
	Dir2     string `json:"dir2"`
}

type cliEvent struct {
	Ev         string `json:"ev"`
	ID         int    `json:"id"`
	Cfg        cliCfg `json:"cfg"`
	Exit       int    `json:"exit"`
	StdoutHash string `json:"stdoutHash"`
	StdoutLen  int    `json:"stdoutLen"`
	StdoutHead string `json:"stdoutHead"`
	FileHash   string `json:"fileHash"`
	FileExists bool   `json:"fileExists"`
	LibHash    string `json:"libHash"`
	LibLen     int    `json:"libLen"`
	LibHead    string `json:"libHead"`
	LibErr     bool   `json:"libErr"`
	LibErrMsg  string `json:"libErrMsg"`
	RiSame     bool   `json:"riSame"`
	RiDetail   string `json:"riDetail"`
}

const junkDocs = `apiVersion: v1
kind: ConfigMap
metadata:
  name: cm
  namespace: ns1
data:
  k: v
---
apiVersion: v1
kind: Secret
metadata:
  name: s
type: Opaque
---
apiVersion: rbac.authorization.k8s.io/v1
kind: ClusterRole
metadata:
  name: cr
rules: []
`

const malformedDoc = `apiVersion: networking.k8s.io/v1
kind: NetworkPolicy
metadata:
  name: malformed
  namespace: ns1
spec:
  podSelector: "not-a-selector"
  ingress: 7
`

const brokenYaml = "apiVersion: v1\nkind: Pod\nmetadata:\n  name: [unclosed\n   bad indent: : :\n\t- tab\n"

const dupNP = `apiVersion: networking.k8s.io/v1
kind: NetworkPolicy
metadata:
  name: dup
  namespace: ns1
spec:
  podSelector: {}
`

// buildCliDirs creates the directory kinds of CliSpace.tla under root; returns kind -> path and the focus names.
func buildCliDirs(root string, seed int64) (map[string]string, map[string]string) {
	dirs := map[string]string{}
	r := rand.New(rand.NewSource(seed))
	mk := func(kind string, o world.GenOpts, minWl int) *world.World {
		var w *world.World
		for {
			w = world.Gen(rand.New(rand.NewSource(r.Int63())), o)
			if len(w.Workloads) >= minWl && len(w.Netpols) > 0 {
				break
			}
		}
		d := filepath.Join(root, kind)
		conc := world.NewConc(w, r.Int63())
		if err := conc.WriteWorld(d, w, r.Int63()); err != nil {
			panic(err)
		}
		dirs[kind] = d
		return w
	}
	base := world.GenOpts{MaxNS: 2, MaxWl: 4, MaxNP: 3, KindsFree: true}
	good := mk("good", base, 2)
	focus := map[string]string{"present": good.Workloads[0].Name, "nsname": good.Workloads[0].NS + "/" + good.Workloads[0].Name, "absent": "nosuch", "": ""}
	for _, k := range []string{"junk", "severe", "fatal", "schema"} {
		d := filepath.Join(root, k)
		conc := world.NewConc(good, 7)
		if err := conc.WriteWorld(d, good, 11); err != nil {
			panic(err)
		}
		dirs[k] = d
	}
	os.WriteFile(filepath.Join(dirs["junk"], "junk.yaml"), []byte(junkDocs), 0o644)
	os.WriteFile(filepath.Join(dirs["junk"], "README.md"), []byte("# not a manifest\n"), 0o644)
	os.WriteFile(filepath.Join(dirs["junk"], "notes.txt"), []byte("kind: Pod\n"), 0o644)
	os.WriteFile(filepath.Join(dirs["junk"], "empty.yaml"), []byte(""), 0o644)
	os.WriteFile(filepath.Join(dirs["severe"], "malformed.yaml"), []byte(malformedDoc), 0o644)
	os.WriteFile(filepath.Join(dirs["severe"], "broken.yaml"), []byte(brokenYaml), 0o644)
	// "schema": the only problem is a document that fails schema conversion (severe, not fatal, not a scanner error)
	os.WriteFile(filepath.Join(dirs["schema"], "malformed.yaml"), []byte(malformedDoc), 0o644)
	// "nowl": no workload at all, only a policy (severe "no workloads" entry, library returns no error)
	os.MkdirAll(filepath.Join(root, "nowl"), 0o755)
	dirs["nowl"] = filepath.Join(root, "nowl")
	os.WriteFile(filepath.Join(dirs["nowl"], "np.yaml"), []byte(dupNP), 0o644)
	os.WriteFile(filepath.Join(dirs["fatal"], "dup1.yaml"), []byte(dupNP), 0o644)
	os.WriteFile(filepath.Join(dirs["fatal"], "dup2.yaml"), []byte(dupNP), 0o644)
	os.MkdirAll(filepath.Join(root, "empty"), 0o755)
	dirs["empty"] = filepath.Join(root, "empty")
	dirs["missing"] = filepath.Join(root, "does-not-exist")
	// ingress world from a fixed construction (the generator has no services)
	iw := good.Clone()
	wl := &iw.Workloads[0]
	if len(wl.Ports) == 0 {
		wl.Ports = []world.CPort{{Name: "http", Proto: "TCP", Port: 2}}
	}
	if len(wl.Labels) == 0 {
		wl.Labels = world.Labels{"app": "a"}
	}
	iw.Services = []world.Service{{NS: wl.NS, Name: "svc1", Selector: wl.Labels, Ports: []world.SvcPort{{Name: "p1", Port: 2, TargetPort: world.OptPort{Nil: true, Kind: "num"}}}}}
	iw.Ingresses = []world.Ingress{{NS: wl.NS, Name: "ing1", DefaultNil: true, Default: world.Backend{Svc: "svc1", Port: world.OptPort{Kind: "num", Num: 2}},
		Rules: []world.Backend{{Svc: "svc1", Port: world.OptPort{Kind: "num", Num: 2}}}}}
	iw.Normalize()
	{
		d := filepath.Join(root, "ingress")
		conc := world.NewConc(iw, 5)
		if err := conc.WriteWorld(d, iw, 3); err != nil {
			panic(err)
		}
		dirs["ingress"] = d
	}
	adm := base
	adm.MaxANP, adm.BANP = 3, true
	for {
		w := mk("admin", adm, 2)
		if len(w.Anps) > 0 {
			break
		}
		os.RemoveAll(dirs["admin"])
	}
	return dirs, focus
}

func head(s string) string {
	if len(s) > 160 {
		return s[:160]
	}
	return s
}

func libList(cfg cliCfg, dir string, focus string) (out string, err error, riSame bool, riDetail string) {
	mkOpts := func() []connlist.ConnlistAnalyzerOption {
		opts := []connlist.ConnlistAnalyzerOption{connlist.WithLogger(run.Quiet{}), connlist.WithFocusWorkload(focus)}
		f := cfg.Fmt
		if f == "" {
			f = "txt"
		}
		opts = append(opts, connlist.WithOutputFormat(f))
		if cfg.Fail {
			opts = append(opts, connlist.WithStopOnError())
		}
		if cfg.Exposure {
			opts = append(opts, connlist.WithExposureAnalysis())
		}
		return opts
	}
	ca := connlist.NewConnlistAnalyzer(mkOpts()...)
	conns, _, err := ca.ConnlistFromDirPath(dir)
	riSame = true
	if err == nil {
		// the resource-info API on the scanned infos must return the same connections
		infos, _ := fsscanner.GetResourceInfosFromDirPath([]string{dir}, true, cfg.Fail)
		ca2 := connlist.NewConnlistAnalyzer(mkOpts()...)
		conns2, _, err2 := ca2.ConnlistFromResourceInfos(infos)
		if err2 != nil {
			riSame, riDetail = false, "resource-infos API failed: "+err2.Error()
		} else {
			a, b := connStrings(conns), connStrings(conns2)
			if strings.Join(a, "\n") != strings.Join(b, "\n") {
				riSame, riDetail = false, fmt.Sprintf("%d vs %d connections", len(a), len(b))
			}
		}
		out, err = ca.ConnectionsListToString(conns)
	}
	return out, err, riSame, riDetail
}

func connStrings(conns []connlist.Peer2PeerConnection) []string {
	var res []string
	for _, c := range conns {
		res = append(res, c.Src().String()+"|"+c.Dst().String()+"|"+connlist.GetConnectionSetFromP2PConnection(c).String())
	}
	sort.Strings(res)
	return res
}

func libDiff(cfg cliCfg, d1, d2 string) (string, error) {
	opts := []diff.DiffAnalyzerOption{diff.WithLogger(run.Quiet{}), diff.WithArgNames("dir1", "dir2")}
	f := cfg.Fmt
	if f == "" {
		f = "txt"
	}
	opts = append(opts, diff.WithOutputFormat(f))
	if cfg.Fail {
		opts = append(opts, diff.WithStopOnError())
	}
	da := diff.NewDiffAnalyzer(opts...)
	// the CLI validates the format before running
	if err := diff.ValidateDiffOutputFormat(f); err != nil {
		return "", err
	}
	d, err := da.ConnDiffFromDirPaths(d1, d2)
	if err != nil {
		return "", err
	}
	return da.ConnectivityDiffToString(d)
}

func runCli(em *emitter, id int, cfg cliCfg, bin string, dirs, focus map[string]string, tmp string) {
	ev := cliEvent{Ev: "Cli", ID: id, Cfg: cfg, RiSame: true}
	args := []string{cfg.Cmd}
	fpath := filepath.Join(tmp, fmt.Sprintf("out-%d.txt", id))
	os.Remove(fpath)
	if cfg.File && id%2 == 0 {
		// the output file may already exist (an earlier, longer report)
		os.WriteFile(fpath, []byte(strings.Repeat("stale line of an earlier report\n", 4000)), 0o644)
	}
	if cfg.Cmd == "list" {
		args = append(args, "--dirpath", dirs[cfg.Dir])
		if cfg.Exposure {
			args = append(args, "--exposure")
		}
		if cfg.Focus != "" {
			args = append(args, "--focusworkload", focus[cfg.Focus])
		}
	} else {
		args = append(args, "--dir1", dirs[cfg.Dir], "--dir2", dirs[cfg.Dir2])
	}
	if cfg.Fmt != "" {
		args = append(args, "-o", cfg.Fmt)
	}
	if cfg.Fail {
		args = append(args, "--fail")
	}
	switch cfg.Verb {
	case "q":
		args = append(args, "-q")
	case "v":
		args = append(args, "-v")
	case "qv":
		args = append(args, "-q", "-v")
	}
	if cfg.File {
		args = append(args, "-f", fpath)
	}
	cmd := exec.Command(bin, args...)
	cmd.Dir = tmp
	var so, se bytes.Buffer
	cmd.Stdout, cmd.Stderr = &so, &se
	err := cmd.Run()
	if err != nil {
		if ee, ok := err.(*exec.ExitError); ok {
			ev.Exit = ee.ExitCode()
		} else {
			ev.Exit = -1
		}
	}
	stdout := so.String()
	ev.StdoutHash, ev.StdoutLen, ev.StdoutHead = sha(stdout), len(stdout), head(stdout)
	if b, err := os.ReadFile(fpath); err == nil {
		ev.FileExists = true
		ev.FileHash = sha(string(b))
	}
	os.Remove(fpath)
	var lib string
	var lerr error
	func() {
		defer func() {
			if r := recover(); r != nil {
				lerr = fmt.Errorf("panic: %v", r)
			}
		}()
		if cfg.Cmd == "list" {
			lib, lerr, ev.RiSame, ev.RiDetail = libList(cfg, dirs[cfg.Dir], focus[cfg.Focus])
		} else {
			lib, lerr = libDiff(cfg, dirs[cfg.Dir], dirs[cfg.Dir2])
		}
	}()
	if lerr != nil {
		ev.LibErr, ev.LibErrMsg, lib = true, head(lerr.Error()), ""
	}
	ev.LibHash, ev.LibLen, ev.LibHead = sha(lib), len(lib), head(lib)
	em.emit(ev)
}

func cmdCli(args []string) int {
	fs := flag.NewFlagSet("cli", flag.ExitOnError)
	cases := fs.String("cases", "", "file with TLC-emitted CASE lines of CliSpace.tla")
	bin := fs.String("bin", "", "k8snetpolicy binary")
	seed := fs.Int64("seed", 1, "seed (directories)")
	outDir := fs.String("out", "", "output dir")
	shards := fs.Int("shards", 16, "shards")
	fs.Parse(args)
	os.MkdirAll(*outDir, 0o755)
	f, err := os.Open(*cases)
	if err != nil {
		fmt.Fprintln(os.Stderr, err)
		return 2
	}
	var cs []cliCfg
	sc := bufio.NewScanner(f)
	sc.Buffer(make([]byte, 1<<20), 1<<26)
	for sc.Scan() {
		line := strings.TrimSpace(sc.Text())
		if !strings.HasPrefix(line, "\"CASE ") {
			continue
		}
		var s string
		if err := json.Unmarshal([]byte(line), &s); err != nil {
			fmt.Fprintln(os.Stderr, err)
			return 2
		}
		var c cliCfg
		if err := json.Unmarshal([]byte(s[len("CASE "):]), &c); err != nil {
			fmt.Fprintln(os.Stderr, err)
			return 2
		}
		cs = append(cs, c)
	}
	f.Close()
	root := scratchRoot()
	if os.Getenv("VERIF_KEEP") == "" {
		defer os.RemoveAll(root)
	}
	dirs, focus := buildCliDirs(filepath.Join(root, "dirs"), *seed)
	var wg sync.WaitGroup
	for s := 0; s < *shards; s++ {
		wg.Add(1)
		go func(s int) {
			defer wg.Done()
			em, err := newEmitter(filepath.Join(*outDir, fmt.Sprintf("shard%02d.ndjson", s)))
			if err != nil {
				panic(err)
			}
			defer em.close()
			tmp := filepath.Join(root, fmt.Sprintf("t%02d", s))
			os.MkdirAll(tmp, 0o755)
			for k := s; k < len(cs); k += *shards {
				runCli(em, k, cs[k], *bin, dirs, focus, tmp)
			}
		}(s)
	}
	wg.Wait()
	fmt.Printf("cases=%d\n", len(cs))
	return 0
}

func init() {
	register("cli", "run the built binary and the library for every configuration of CliSpace.tla and record the outcomes (C18)", cmdCli)
}
