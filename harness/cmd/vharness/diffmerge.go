package main

// diffmerge: conformance binding of specs/DiffMerge.tla (design layer of C04). Every case is an input of that specification -
// two partitions of N consecutive addresses into ranges, each range with a connection value A / B / none - written as two manifest
// directories (one workload, one NetworkPolicy whose rules name the addresses of each range with the range's ports), analysed by the
// real ConnDiffFromDirPaths; the ip-block entries of the real result are recorded with their exact ranges. DiffMergeTrace.tla accepts a
// case iff the recorded entries are exactly the entries DiffMerge!Out predicts (same ranges, same connections, same types).

import (
	"encoding/json"
	"flag"
	"fmt"
	"math/rand"
	"os"
	"path/filepath"
	"sort"
	"strings"
	"sync"

	"github.com/np-guard/netpol-analyzer/pkg/netpol/diff"

	"verif/harness/run"
)

type dmBlock struct {
	Lo int    `json:"lo"`
	Hi int    `json:"hi"`
	C  string `json:"c"`
}

type dmEntry struct {
	Lo   int    `json:"lo"`
	Hi   int    `json:"hi"`
	C1   string `json:"c1"`
	C2   string `json:"c2"`
	Type string `json:"type"`
}

type dmCase struct {
	Ev      string    `json:"ev"`
	ID      int       `json:"id"`
	N       int       `json:"N"`
	Dir     string    `json:"dir"` // egress: workload -> ip-block; ingress: ip-block -> workload
	B1      []dmBlock `json:"b1"`
	B2      []dmBlock `json:"b2"`
	Outcome string    `json:"outcome"` // ok | error | panic
	Msg     string    `json:"msg"`
	Entries []dmEntry `json:"entries"`
	Stray   []string  `json:"stray"` // entries of the real result that are not (ip-block of the address window, workload) entries
}

const dmBase = 10<<24 | 7<<8 // 10.0.7.0: the N addresses are 10.0.7.0 .. 10.0.7.(N-1)

var dmPorts = map[string]string{"A": "    - protocol: TCP\n      port: 80\n", "B": "    - protocol: UDP\n      port: 53\n"}

func dmWriteDir(dir string, bs []dmBlock, egress bool) {
	os.RemoveAll(dir)
	os.MkdirAll(dir, 0o755)
	var sb strings.Builder
	sb.WriteString("apiVersion: v1\nkind: Namespace\nmetadata:\n  name: ns1\n---\n")
	sb.WriteString("apiVersion: apps/v1\nkind: Deployment\nmetadata:\n  name: w\n  namespace: ns1\nspec:\n  replicas: 1\n  selector:\n    matchLabels:\n      app: w\n" +
		"  template:\n    metadata:\n      labels:\n        app: w\n    spec:\n      containers:\n      - name: c\n        image: img\n---\n")
	sec, peers, typ := "ingress", "from", "Ingress"
	if egress {
		sec, peers, typ = "egress", "to", "Egress"
	}
	// the other direction is left open to nobody outside: only the direction under test produces ip-block entries
	sb.WriteString("apiVersion: networking.k8s.io/v1\nkind: NetworkPolicy\nmetadata:\n  name: np\n  namespace: ns1\nspec:\n  podSelector: {}\n  policyTypes: [Ingress, Egress]\n")
	_ = typ
	rules := 0
	var rs strings.Builder
	for _, b := range bs {
		if b.C == "none" {
			continue
		}
		rules++
		rs.WriteString("  - " + peers + ":\n")
		for a := b.Lo; a <= b.Hi; a++ {
			ip := uint32(dmBase + a)
			rs.WriteString(fmt.Sprintf("    - ipBlock:\n        cidr: %d.%d.%d.%d/32\n", ip>>24, (ip>>16)&255, (ip>>8)&255, ip&255))
		}
		rs.WriteString("    ports:\n" + dmPorts[b.C])
	}
	if rules > 0 {
		sb.WriteString("  " + sec + ":\n" + rs.String())
	}
	os.WriteFile(filepath.Join(dir, "all.yaml"), []byte(sb.String()), 0o644)
}

func dmConn(ac diff.AllowedConnectivity) string {
	if ac.AllProtocolsAndPorts() {
		return "ALL"
	}
	var parts []string
	for proto, prs := range ac.ProtocolsAndPorts() {
		for _, pr := range prs {
			parts = append(parts, fmt.Sprintf("%s %d-%d", proto, pr.Start(), pr.End()))
		}
	}
	sort.Strings(parts)
	switch strings.Join(parts, ",") {
	case "":
		return "none"
	case "TCP 80-80":
		return "A"
	case "UDP 53-53":
		return "B"
	}
	return "?" + strings.Join(parts, ",")
}

func dmRange(s string) (lo, hi int, ok bool) {
	var a, b, c, d, e, f, g, h int
	if n, _ := fmt.Sscanf(s, "%d.%d.%d.%d-%d.%d.%d.%d", &a, &b, &c, &d, &e, &f, &g, &h); n != 8 {
		return 0, 0, false
	}
	l, u := a<<24|b<<16|c<<8|d, e<<24|f<<16|g<<8|h
	return l - dmBase, u - dmBase, true
}

func dmRun(root string, cs *dmCase) {
	d1, d2 := filepath.Join(root, "d1"), filepath.Join(root, "d2")
	eg := cs.Dir == "egress"
	dmWriteDir(d1, cs.B1, eg)
	dmWriteDir(d2, cs.B2, eg)
	cs.Entries, cs.Stray = []dmEntry{}, []string{}
	defer func() {
		if r := recover(); r != nil {
			cs.Outcome, cs.Msg = "panic", fmt.Sprint(r)
		}
	}()
	da := diff.NewDiffAnalyzer(diff.WithLogger(run.Quiet{}))
	d, err := da.ConnDiffFromDirPaths(d1, d2)
	if err != nil || d == nil {
		cs.Outcome = "error"
		if err != nil {
			cs.Msg = err.Error()
		}
		return
	}
	cs.Outcome = "ok"
	add := func(t string, list []diff.SrcDstDiff) {
		for _, e := range list {
			ip, wl := e.Dst(), e.Src()
			if !eg {
				ip, wl = e.Src(), e.Dst()
			}
			lo, hi, ok := 0, 0, false
			if ip.IsPeerIPType() && !wl.IsPeerIPType() && wl.String() == "ns1/w[Deployment]" {
				lo, hi, ok = dmRange(ip.String())
			}
			if !ok || lo < 0 || hi >= cs.N || lo > hi {
				cs.Stray = append(cs.Stray, fmt.Sprintf("%s: %s => %s", t, e.Src().String(), e.Dst().String()))
				continue
			}
			cs.Entries = append(cs.Entries, dmEntry{Lo: lo, Hi: hi, C1: dmConn(e.Ref1Connectivity()), C2: dmConn(e.Ref2Connectivity()), Type: t})
		}
	}
	add("removed", d.RemovedConnections())
	add("added", d.AddedConnections())
	add("changed", d.ChangedConnections())
	add("unchanged", d.UnchangedConnections())
	sort.Slice(cs.Entries, func(i, j int) bool { return cs.Entries[i].Lo < cs.Entries[j].Lo })
	sort.Strings(cs.Stray)
}

// all sequences of consecutive ranges covering 0..n-1 with a value in {A, B, none} per range
func dmPartitions(n int) [][]dmBlock {
	var res [][]dmBlock
	var rec func(lo int, cur []dmBlock)
	rec = func(lo int, cur []dmBlock) {
		if lo == n {
			res = append(res, append([]dmBlock{}, cur...))
			return
		}
		for hi := lo; hi < n; hi++ {
			for _, c := range []string{"A", "B", "none"} {
				rec(hi+1, append(cur, dmBlock{lo, hi, c}))
			}
		}
	}
	rec(0, nil)
	return res
}

func cmdDiffMerge(args []string) int {
	fs := flag.NewFlagSet("diffmerge", flag.ExitOnError)
	seed := fs.Int64("seed", 1, "seed")
	n := fs.Int("N", 4, "addresses")
	sample := fs.Int("sample", 0, "number of sampled input pairs (0: every pair)")
	outDir := fs.String("out", "", "output dir")
	shards := fs.Int("shards", 16, "shards")
	caseFile := fs.String("case", "", "replay one recorded case (JSON of a Case event)")
	fs.Parse(args)
	os.MkdirAll(*outDir, 0o755)
	if *caseFile != "" {
		b, err := os.ReadFile(*caseFile)
		var cs dmCase
		if err == nil {
			err = json.Unmarshal(b, &cs)
		}
		if err != nil {
			fmt.Fprintln(os.Stderr, err)
			return 2
		}
		em, err := newEmitter(filepath.Join(*outDir, "dm_shard00.ndjson"))
		if err != nil {
			panic(err)
		}
		dmRun(filepath.Join(scratchRoot(), "dm-replay"), &cs)
		em.emit(cs)
		em.close()
		return 0
	}
	parts := dmPartitions(*n)
	type job struct{ i, j int }
	var jobs []job
	if *sample == 0 {
		for i := range parts {
			for j := range parts {
				jobs = append(jobs, job{i, j})
			}
		}
	} else {
		r := rand.New(rand.NewSource(*seed))
		for k := 0; k < *sample; k++ {
			jobs = append(jobs, job{r.Intn(len(parts)), r.Intn(len(parts))})
		}
	}
	root := scratchRoot()
	var wg sync.WaitGroup
	for s := 0; s < *shards; s++ {
		wg.Add(1)
		go func(s int) {
			defer wg.Done()
			em, err := newEmitter(filepath.Join(*outDir, fmt.Sprintf("dm_shard%02d.ndjson", s)))
			if err != nil {
				panic(err)
			}
			defer em.close()
			dir := filepath.Join(root, fmt.Sprintf("dm-%d", s))
			for k := s; k < len(jobs); k += *shards {
				cs := dmCase{Ev: "Case", ID: k, N: *n, Dir: []string{"egress", "ingress"}[(k+int(*seed))%2], B1: parts[jobs[k].i], B2: parts[jobs[k].j]}
				dmRun(dir, &cs)
				em.emit(cs)
			}
			os.RemoveAll(dir)
		}(s)
	}
	wg.Wait()
	fmt.Printf("cases=%d\n", len(jobs))
	return 0
}

func init() {
	register("diffmerge", "run the real diff on every / sampled input of DiffMerge.tla and record the ip-block entries (C04 design-layer binding)", cmdDiffMerge)
}
