package main

import (
	"bufio"
	"encoding/json"
	"flag"
	"fmt"
	"math/rand"
	"os"
	"path/filepath"
	"reflect"
	"sort"
	"strconv"
	"strings"
	"sync"

	v1 "k8s.io/api/core/v1"
	"k8s.io/apimachinery/pkg/util/intstr"

	"github.com/np-guard/netpol-analyzer/pkg/netpol/verifshim"

	"verif/harness/run"
	"verif/harness/world"
)

type csSpec struct {
	Proto string   `json:"proto"`
	Lo    int      `json:"lo"`
	Hi    int      `json:"hi"`
	Names []string `json:"names"`
}

type csOp struct {
	Op   string  `json:"op"`
	I    int     `json:"i"`
	J    int     `json:"j"`
	All  bool    `json:"all"`
	Spec *csSpec `json:"spec,omitempty"`
}

type csReg struct {
	Pts       map[string][]int    `json:"pts"`      // model ports per protocol (from ProtocolsAndPortsMap)
	Names     map[string][]string `json:"names"`    // named ports per protocol
	Excl      map[string][]string `json:"excl"`     // ExcludedNamedPorts per protocol
	Contains  map[string][]int    `json:"contains"` // model ports for which Contains() is true at both chunk ends
	All       bool                `json:"all"`      // IsAllConnections()
	Empty     bool                `json:"empty"`    // IsEmpty()
	Str       string              `json:"str"`
	Aligned   bool                `json:"aligned"`
	Canonical bool                `json:"canonical"` // reported ranges sorted, disjoint, non-adjacent, within 1..65535
	Mixed     bool                `json:"mixed"`     // Contains() disagrees inside one chunk
	Keys      []string            `json:"keys"`      // representation: the protocols that are keys of AllowedProtocols (sorted)
	AllowAll  bool                `json:"allowAll"`  // representation: the AllowAll field
}

type csStep struct {
	Ev      string   `json:"ev"`
	O       csOp     `json:"o"`
	Regs    []csReg  `json:"regs"`
	Eq      [][]bool `json:"eq"`      // Equal(i, j)
	Sub     [][]bool `json:"sub"`     // ContainedIn(i, j)
	Aliased [][]int  `json:"aliased"` // pairs of registers sharing a *PortSet or a named-ports map
	ArgLeak bool     `json:"argLeak"` // mutating the PortSet passed to AddConnection changed the register
	Panic   string   `json:"panic"`
}

type csStart struct {
	Ev   string `json:"ev"`
	ID   int    `json:"id"`
	M    int    `json:"M"`
	NR   int    `json:"NR"`
	Conc string `json:"conc"`
	Src  string `json:"src"`
}

func observeReg(cs *verifshim.ConnectionSet, w *world.World, c *world.Conc) csReg {
	r := csReg{Pts: map[string][]int{}, Names: map[string][]string{}, Excl: map[string][]string{}, Contains: map[string][]int{}, Aligned: true, Canonical: true}
	for _, pr := range run.Protos {
		r.Pts[pr], r.Names[pr], r.Excl[pr], r.Contains[pr] = []int{}, []string{}, []string{}, []int{}
	}
	r.All, r.Empty, r.Str = cs.IsAllConnections(), cs.IsEmpty(), cs.String()
	r.AllowAll, r.Keys = cs.AllowAll, []string{}
	for proto := range cs.AllowedProtocols {
		r.Keys = append(r.Keys, string(proto))
	}
	sort.Strings(r.Keys)
	for proto, prs := range cs.ProtocolsAndPortsMap() {
		var ranges [][2]int
		for k, pr := range prs {
			ranges = append(ranges, [2]int{int(pr.Start()), int(pr.End())})
			if pr.Start() < 1 || pr.End() > 65535 || pr.Start() > pr.End() {
				r.Canonical = false
			}
			if k > 0 && int(prs[k-1].End())+1 >= int(pr.Start()) {
				r.Canonical = false
			}
		}
		ports, ok := c.AbstractPorts(w.M, ranges)
		if !ok {
			r.Aligned = false
		}
		if ports == nil {
			ports = []int{}
		}
		r.Pts[string(proto)] = ports
	}
	for proto, ps := range cs.AllowedProtocols {
		var ns, ex []string
		for n := range ps.NamedPorts {
			ns = append(ns, n)
		}
		for n := range ps.ExcludedNamedPorts {
			ex = append(ex, n)
		}
		sort.Strings(ns)
		sort.Strings(ex)
		if ns == nil {
			ns = []string{}
		}
		if ex == nil {
			ex = []string{}
		}
		r.Names[string(proto)], r.Excl[string(proto)] = ns, ex
	}
	for _, pr := range run.Protos {
		for n := 1; n <= w.M; n++ {
			a := cs.Contains(strconv.Itoa(c.PortLo(n)), pr)
			b := cs.Contains(strconv.Itoa(c.PortHi(n)), strings.ToLower(pr))
			if a != b {
				r.Mixed = true
			}
			if a && b {
				r.Contains[pr] = append(r.Contains[pr], n)
			}
		}
	}
	return r
}

func mapPtr(m map[string]bool) uintptr {
	if m == nil {
		return 0
	}
	return reflect.ValueOf(m).Pointer()
}

func aliases(regs []*verifshim.ConnectionSet) [][]int {
	res := [][]int{}
	for i := range regs {
		for j := i + 1; j < len(regs); j++ {
			shared := false
			if regs[i] == regs[j] {
				shared = true
			}
			if reflect.ValueOf(regs[i].AllowedProtocols).Pointer() == reflect.ValueOf(regs[j].AllowedProtocols).Pointer() {
				shared = true
			}
			for _, pi := range regs[i].AllowedProtocols {
				for _, pj := range regs[j].AllowedProtocols {
					if pi == pj || pi.Ports == pj.Ports || (mapPtr(pi.NamedPorts) != 0 && mapPtr(pi.NamedPorts) == mapPtr(pj.NamedPorts)) ||
						(mapPtr(pi.ExcludedNamedPorts) != 0 && mapPtr(pi.ExcludedNamedPorts) == mapPtr(pj.ExcludedNamedPorts)) {
						shared = true
					}
				}
			}
			if shared {
				res = append(res, []int{i + 1, j + 1})
			}
		}
	}
	return res
}

func replayConnSet(em *emitter, id int, src string, ops []csOp, M, NR int, seed int64) {
	w := &world.World{M: M, NAddr: 2}
	w.Normalize()
	conc := world.NewConc(w, seed)
	cb, _ := json.Marshal(conc)
	em.emit(csStart{Ev: "Start", ID: id, M: M, NR: NR, Conc: string(cb), Src: src})
	regs := make([]*verifshim.ConnectionSet, NR)
	for i := range regs {
		regs[i] = verifshim.MakeConnectionSet(false)
	}
	for _, o := range ops {
		st := csStep{Ev: "Step", O: o, Regs: []csReg{}, Aliased: [][]int{}}
		func() {
			defer func() {
				if r := recover(); r != nil {
					st.Panic = fmt.Sprint(r)
				}
			}()
			i := o.I - 1
			switch o.Op {
			case "Make":
				regs[i] = verifshim.MakeConnectionSet(o.All)
			case "Add":
				ps := verifshim.MakePortSet(false)
				if o.Spec.Lo <= o.Spec.Hi {
					ps.AddPortRange(int64(conc.PortLo(o.Spec.Lo)), int64(conc.PortHi(o.Spec.Hi)))
				}
				for _, n := range o.Spec.Names {
					ps.AddPort(intstr.FromString(n))
				}
				regs[i].AddConnection(v1.Protocol(o.Spec.Proto), ps)
				// the argument is an operand: mutating it afterwards must not change the register
				before := observeReg(regs[i], w, conc)
				ps.AddPortRange(1, 65535)
				ps.AddPort(intstr.FromString("leak"))
				after := observeReg(regs[i], w, conc)
				st.ArgLeak = !reflect.DeepEqual(before, after)
			case "Union":
				regs[i].Union(regs[o.J-1])
			case "Subtract":
				regs[i].Subtract(regs[o.J-1])
			case "Intersect":
				regs[i].Intersection(regs[o.J-1])
			case "Copy":
				regs[i] = regs[o.J-1].Copy()
			}
		}()
		for _, r := range regs {
			st.Regs = append(st.Regs, observeReg(r, w, conc))
		}
		for i := range regs {
			var eq, sub []bool
			for j := range regs {
				eq = append(eq, regs[i].Equal(regs[j]))
				sub = append(sub, regs[i].ContainedIn(regs[j]))
			}
			st.Eq = append(st.Eq, eq)
			st.Sub = append(st.Sub, sub)
		}
		st.Aliased = aliases(regs)
		em.emit(st)
		if st.Panic != "" {
			return
		}
	}
}

func readOps(path string) ([][]csOp, error) {
	f, err := os.Open(path)
	if err != nil {
		return nil, err
	}
	defer f.Close()
	var hs [][]csOp
	sc := bufio.NewScanner(f)
	sc.Buffer(make([]byte, 1<<20), 1<<28)
	for sc.Scan() {
		line := strings.TrimSpace(sc.Text())
		if !strings.HasPrefix(line, "\"OPS ") {
			continue
		}
		var s string
		if err := json.Unmarshal([]byte(line), &s); err != nil {
			return nil, err
		}
		var ops []csOp
		if err := json.Unmarshal([]byte(s[len("OPS "):]), &ops); err != nil {
			return nil, fmt.Errorf("bad ops: %v", err)
		}
		for i := range ops {
			if ops[i].Spec != nil && ops[i].Spec.Names == nil {
				ops[i].Spec.Names = []string{}
			}
		}
		hs = append(hs, ops)
	}
	return hs, sc.Err()
}

// randomOps: direction B -- long seeded operation sequences over more port chunks than TLC's constant.
func randomOps(r *rand.Rand, n, M, NR int) []csOp {
	var ops []csOp
	protos := run.Protos
	names := []string{"http", "dns"}
	for len(ops) < n {
		i := 1 + r.Intn(NR)
		j := 1 + r.Intn(NR)
		switch r.Intn(10) {
		case 0:
			ops = append(ops, csOp{Op: "Make", I: i, All: r.Intn(2) == 0})
		case 1, 2, 3, 4:
			sp := &csSpec{Proto: protos[r.Intn(3)], Lo: 1, Hi: 0, Names: []string{}}
			switch r.Intn(5) {
			case 0:
				sp.Lo, sp.Hi = 1, M
			case 1:
				sp.Names = []string{names[r.Intn(2)]}
			case 2:
				sp.Lo = 1 + r.Intn(M)
				sp.Hi = sp.Lo + r.Intn(M-sp.Lo+1)
				sp.Names = []string{names[r.Intn(2)]}
			default:
				sp.Lo = 1 + r.Intn(M)
				sp.Hi = sp.Lo + r.Intn(M-sp.Lo+1)
			}
			ops = append(ops, csOp{Op: "Add", I: i, Spec: sp})
		case 5, 6:
			ops = append(ops, csOp{Op: "Union", I: i, J: j})
		case 7:
			ops = append(ops, csOp{Op: "Subtract", I: i, J: j})
		case 8:
			ops = append(ops, csOp{Op: "Intersect", I: i, J: j})
		case 9:
			if i != j {
				ops = append(ops, csOp{Op: "Copy", I: i, J: j})
			}
		}
	}
	return ops
}

func cmdConnSet(args []string) int {
	fs := flag.NewFlagSet("connset", flag.ExitOnError)
	seed := fs.Int64("seed", 1, "seed")
	opsFile := fs.String("ops", "", "file with TLC-emitted OPS lines")
	m := fs.Int("M", 3, "port chunks of the TLC sequences")
	nr := fs.Int("NR", 3, "registers of the TLC sequences")
	nrand := fs.Int("random", 0, "number of random sequences")
	rlen := fs.Int("len", 80, "length of random sequences")
	rm := fs.Int("randomM", 9, "port chunks of the random sequences")
	outDir := fs.String("out", "", "output dir")
	shards := fs.Int("shards", 16, "shards")
	fs.Parse(args)
	os.MkdirAll(*outDir, 0o755)
	type job struct {
		src   string
		ops   []csOp
		M, NR int
	}
	var jobs []job
	if *opsFile != "" {
		hs, err := readOps(*opsFile)
		if err != nil {
			fmt.Fprintln(os.Stderr, err)
			return 2
		}
		for _, h := range hs {
			jobs = append(jobs, job{"tlc", h, *m, *nr})
		}
	}
	r := rand.New(rand.NewSource(*seed))
	for i := 0; i < *nrand; i++ {
		jobs = append(jobs, job{"random", randomOps(rand.New(rand.NewSource(r.Int63())), *rlen, *rm, 3), *rm, 3})
	}
	var wg sync.WaitGroup
	for s := 0; s < *shards; s++ {
		wg.Add(1)
		go func(s int) {
			defer wg.Done()
			// sequences with different constants go to different shard files (the trace spec's constants are per file)
			ems := map[string]*emitter{}
			for j := s; j < len(jobs); j += *shards {
				key := fmt.Sprintf("M%d_NR%d", jobs[j].M, jobs[j].NR)
				em := ems[key]
				if em == nil {
					var err error
					em, err = newEmitter(filepath.Join(*outDir, fmt.Sprintf("%s_shard%02d.ndjson", key, s)))
					if err != nil {
						panic(err)
					}
					ems[key] = em
				}
				replayConnSet(em, j, jobs[j].src, jobs[j].ops, jobs[j].M, jobs[j].NR, *seed*104729+int64(j))
			}
			for _, em := range ems {
				em.close()
			}
		}(s)
	}
	wg.Wait()
	fmt.Printf("sequences=%d\n", len(jobs))
	return 0
}

func init() {
	register("connset", "replay TLC / random operation sequences on real common.ConnectionSet objects and record traces (C11)", cmdConnSet)
}
