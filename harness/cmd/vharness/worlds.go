package main

import (
	"bufio"
	"encoding/json"
	"flag"
	"fmt"
	"math/rand"
	"os"
	"path/filepath"
	goruntime "runtime"
	"strings"
	"sync"

	"verif/harness/run"
	"verif/harness/world"
)

// Case is one abstract world to exercise, together with where it came from.
type Case struct {
	ID    int           `json:"id"`
	Label string        `json:"label"` // TLC action label that produced it, or "gen:<profile>"
	Args  []interface{} `json:"args"`  // arguments of the action (indices, direction)
	Step  int           `json:"step"`
	Chain bool          `json:"chain"` // successor (by Label) of the previous case of the same behaviour
	World *world.World  `json:"world"`
	Conc  string        `json:"conc"` // optional: a recorded concretisation to reuse (replay)
	Seed  int64         `json:"seed"` // optional: the case seed to reuse (replay)
}

var profiles = map[string]world.GenOpts{
	"np":         {MaxNS: 3, MaxWl: 4, MaxNP: 4, KindsFree: true},
	"np-out":     {MaxNS: 3, MaxWl: 4, MaxNP: 4, KindsFree: true, HasOut: true},
	"np-big":     {M: 9, NAddr: 16, MaxNS: 4, MaxWl: 7, MaxNP: 6, KindsFree: true, HasOut: true},
	"np-named":   {MaxNS: 2, MaxWl: 3, MaxNP: 3, NamedIP: true},
	"admin":      {MaxNS: 3, MaxWl: 4, MaxNP: 3, MaxANP: 3, BANP: true, KindsFree: true},
	"admin-big":  {M: 7, NAddr: 8, MaxNS: 4, MaxWl: 6, MaxNP: 4, MaxANP: 4, BANP: true, KindsFree: true, HasOut: true},
	"np-shared":  {MaxNS: 3, MaxWl: 5, MaxNP: 3, KindsFree: true, Shared: true},
	"np-collide": {MaxNS: 2, MaxWl: 3, MaxNP: 2, KindsFree: true, Collide: true},
	"np-expo":    {MaxNS: 3, MaxWl: 4, MaxNP: 4, KindsFree: true, Exposure: true},
	"pods":       {MaxNS: 3, MaxWl: 4, MaxNP: 3, MaxANP: 2, BANP: true, OnlyPods: true},
}

type emitter struct {
	mu sync.Mutex
	w  *bufio.Writer
	f  *os.File
}

func newEmitter(path string) (*emitter, error) {
	f, err := os.Create(path)
	if err != nil {
		return nil, err
	}
	return &emitter{w: bufio.NewWriterSize(f, 1<<20), f: f}, nil
}

func (e *emitter) emit(v interface{}) {
	b, err := json.Marshal(v)
	if err != nil {
		panic(err)
	}
	e.w.Write(b)
	e.w.WriteByte('\n')
}

func (e *emitter) close() { e.w.Flush(); e.f.Close() }

func scratchRoot() string {
	root := os.Getenv("VERIF_SCRATCH")
	if root == "" {
		root = fmt.Sprintf("/dev/shm/verif-%d", os.Getpid())
	}
	os.MkdirAll(root, 0o755)
	return root
}

// readCases loads cases from TLC output. Recognised lines (as printed by PrintT of a string):
//
//	"BEHAVIOUR <json array of {label,args,world}>"   one complete behaviour of Cluster.tla (simulation)
//	"CASE <json {label,args,step,world}>"            one state (BFS configs)
//
// or plain JSON objects of type Case.
func readCases(path string) ([]Case, error) {
	f, err := os.Open(path)
	if err != nil {
		return nil, err
	}
	defer f.Close()
	var cases []Case
	add := func(c Case) {
		if c.World == nil {
			return
		}
		if c.Args == nil {
			c.Args = []interface{}{}
		}
		c.World.Normalize()
		c.ID = len(cases)
		cases = append(cases, c)
	}
	sc := bufio.NewScanner(f)
	sc.Buffer(make([]byte, 1<<20), 1<<28)
	for sc.Scan() {
		line := strings.TrimSpace(sc.Text())
		if strings.HasPrefix(line, "\"BEHAVIOUR ") || strings.HasPrefix(line, "\"CASE ") {
			var s string
			if err := json.Unmarshal([]byte(line), &s); err != nil {
				return nil, fmt.Errorf("bad TLC string line: %v: %.120s", err, line)
			}
			if strings.HasPrefix(s, "BEHAVIOUR ") {
				var h []Case
				if err := json.Unmarshal([]byte(s[len("BEHAVIOUR "):]), &h); err != nil {
					return nil, fmt.Errorf("bad behaviour json: %v", err)
				}
				for i, c := range h {
					c.Step = i
					c.Chain = i > 0
					add(c)
				}
			} else {
				var c Case
				if err := json.Unmarshal([]byte(s[len("CASE "):]), &c); err != nil {
					return nil, fmt.Errorf("bad case json: %v", err)
				}
				add(c)
			}
			continue
		}
		if !strings.HasPrefix(line, "{") {
			continue
		}
		var c Case
		if err := json.Unmarshal([]byte(line), &c); err != nil {
			return nil, fmt.Errorf("bad case json: %v: %.200s", err, line)
		}
		add(c)
	}
	return cases, sc.Err()
}

type worldEvent struct {
	Ev    string        `json:"ev"`
	Seed  int64         `json:"seed"`
	ID    int           `json:"id"`
	Label string        `json:"label"`
	Args  []interface{} `json:"args"`
	Chain bool          `json:"chain"`
	Base  bool          `json:"base"` // this world becomes the base of the behaviour's long-distance diffs
	World *world.World  `json:"world"`
	Conc  string        `json:"conc"`
}

type listEvent struct {
	Ev   string       `json:"ev"`
	Opts listOptsJSON `json:"opts"`
	Obs  run.ListObs  `json:"obs"`
}

type listOptsJSON struct {
	Exposure bool   `json:"exposure"`
	Focus    string `json:"focus"`
	Stop     bool   `json:"stop"`
}

func cmdWorlds(args []string) int {
	fs := flag.NewFlagSet("worlds", flag.ExitOnError)
	seed := fs.Int64("seed", 1, "seed for generation, concretisation and layouts")
	n := fs.Int("n", 100, "number of generated worlds (with -profile)")
	profile := fs.String("profile", "", "comma separated generator profiles (random worlds)")
	casesPath := fs.String("cases", "", "file with TLC-emitted CASE lines / case JSON lines")
	outDir := fs.String("out", "", "output directory for trace shards")
	shards := fs.Int("shards", 16, "number of trace shards / worker goroutines")
	ops := fs.String("ops", "list", "comma separated operations per world: list,exposure,focus,eval,evalcli,diff,formats,laws")
	bin := fs.String("bin", "", "path to the k8snetpolicy binary (for evalcli)")
	fs.Parse(args)
	if *outDir == "" {
		fmt.Fprintln(os.Stderr, "-out required")
		return 2
	}
	os.MkdirAll(*outDir, 0o755)
	var cases []Case
	if *casesPath != "" {
		cs, err := readCases(*casesPath)
		if err != nil {
			fmt.Fprintln(os.Stderr, err)
			return 2
		}
		cases = cs
	}
	if *profile != "" {
		profs := strings.Split(*profile, ",")
		r := rand.New(rand.NewSource(*seed))
		for i := 0; i < *n; i++ {
			p := profs[i%len(profs)]
			o, ok := profiles[p]
			if !ok {
				fmt.Fprintln(os.Stderr, "unknown profile", p)
				return 2
			}
			w := world.Gen(rand.New(rand.NewSource(r.Int63())), o)
			cases = append(cases, Case{ID: len(cases), Label: "gen:" + p, World: w})
			if strings.Contains(","+*ops+",", ",diff,") && len(w.Workloads) > 0 {
				// a second (and sometimes third) world a few random edits away, chained to the first: diffs between two
				// sides that differ by several edits at once (same universe, same concretisation)
				for k := 1 + r.Intn(2); k > 0; k-- {
					w = world.Mutate(w, rand.New(rand.NewSource(r.Int63())), o)
					cases = append(cases, Case{ID: len(cases), Label: "gen-edits", Chain: true, World: w})
				}
			}
		}
	}
	opset := map[string]bool{}
	for _, o := range strings.Split(*ops, ",") {
		opset[o] = true
	}
	root := scratchRoot()
	defer os.RemoveAll(root)
	// behaviours (maximal runs of Chain=true) stay within one shard so that edge laws can be checked
	var groups [][]Case
	for _, c := range cases {
		if c.Chain && len(groups) > 0 {
			groups[len(groups)-1] = append(groups[len(groups)-1], c)
		} else {
			groups = append(groups, []Case{c})
		}
	}
	var wg sync.WaitGroup
	errs := make([]error, *shards)
	for s := 0; s < *shards; s++ {
		wg.Add(1)
		go func(s int) {
			defer wg.Done()
			em, err := newEmitter(filepath.Join(*outDir, fmt.Sprintf("shard%02d.ndjson", s)))
			if err != nil {
				errs[s] = err
				return
			}
			defer em.close()
			dir := filepath.Join(root, fmt.Sprintf("s%02d", s))
			for gi := s; gi < len(groups); gi += *shards {
				gs := &groupState{}
				for _, c := range groups[gi] {
					runCase(em, dir, c, *seed, opset, *bin, gs)
				}
			}
		}(s)
	}
	wg.Wait()
	for _, e := range errs {
		if e != nil {
			fmt.Fprintln(os.Stderr, e)
			return 2
		}
	}
	fmt.Printf("cases=%d groups=%d shards=%d\n", len(cases), len(groups), *shards)
	return 0
}

// groupState carries what consecutive cases of one behaviour share: one concretisation (so that observations
// of consecutive worlds are comparable and diff can be run on an edge) and the previous world's directory.
type groupState struct {
	conc    *world.Conc
	prevDir string
	baseDir string // the base world of the behaviour, kept for diffs over several edits
	baseN   int
	prev    *world.World
	dir     string
	n       int
}

func runCase(em *emitter, dir string, c Case, seed int64, ops map[string]bool, bin string, gs *groupState) {
	w := c.World
	cseed := seed*1000003 + int64(c.ID)
	if c.Seed != 0 {
		cseed = c.Seed
	}
	if gs.conc == nil || !c.Chain || len(gs.conc.PortCuts) != w.M+1 {
		gs.conc = world.NewConc(w, cseed)
		if c.Conc != "" {
			rc := &world.Conc{}
			if err := json.Unmarshal([]byte(c.Conc), rc); err == nil && len(rc.PortCuts) == w.M+1 {
				gs.conc = rc
			}
		}
		gs.prevDir, gs.prev, gs.baseDir = "", nil, ""
	}
	conc := gs.conc
	w = conc.Rename(w)
	c.World = w
	cb, _ := json.Marshal(conc)
	if c.Args == nil {
		c.Args = []interface{}{}
	}
	gs.n++
	// the base of long-distance diffs: the first world of the behaviour, replaced by the sixth (by then workloads and a few policies exist)
	isBase := ops["diff"] && (!c.Chain || gs.n == 6)
	em.emit(worldEvent{Ev: "World", Seed: cseed, ID: c.ID, Label: c.Label, Args: c.Args, Chain: c.Chain, Base: isBase, World: w, Conc: string(cb)})
	wdir := filepath.Join(dir, fmt.Sprintf("w%d", gs.n%2))
	os.RemoveAll(wdir)
	if err := conc.WriteWorld(wdir, w, cseed); err != nil {
		panic(err)
	}
	gs.dir = wdir
	if isBase {
		gs.baseN = gs.n
		gs.baseDir = filepath.Join(dir, "wbase")
		os.RemoveAll(gs.baseDir)
		if err := conc.WriteWorld(gs.baseDir, w, cseed); err != nil {
			panic(err)
		}
	}
	if ops["list"] {
		obs, _, _ := run.List(wdir, w, conc, run.ListOpts{})
		em.emit(listEvent{Ev: "List", Obs: obs})
	}
	runExtraOps(em, dir, wdir, c, conc, cseed, ops, bin, gs)
	gs.prevDir, gs.prev = wdir, w
	if gs.n%16 == 0 {
		// the engine opens its cache-hit log on every hit and leaves closing it to the finaliser: collect regularly, or a
		// long run of eval sweeps exhausts the file descriptors of the process
		goruntime.GC()
	}
}

func init() {
	register("worlds", "run the real code on abstract worlds (generated or from TLC) and record ndjson traces", cmdWorlds)
}
