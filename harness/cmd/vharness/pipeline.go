package main

import (
	"bufio"
	"encoding/json"
	"flag"
	"fmt"
	"os"
	"path/filepath"
	"sort"
	"strings"
	"sync"

	"verif/harness/run"
	"verif/harness/world"
)

type pipeFile struct {
	Cls  string   `json:"cls"`
	Docs []string `json:"docs"`
}

type pipeScn struct {
	Files       []pipeFile `json:"files"`
	Stop        bool       `json:"stop"`
	Cmd         string     `json:"cmd"`
	Other       string     `json:"other"`
	Predicted   string     `json:"predicted"`
	SevereFiles []int      `json:"severeFiles"`
	Fatal       bool       `json:"fatal"`
}

type pipeErr struct {
	Severe bool   `json:"severe"`
	Fatal  bool   `json:"fatal"`
	Class  string `json:"class"`
	Files  []int  `json:"files"` // scenario files (1-based) whose name appears in the entry's location or message
}

type pipeEvent struct {
	Ev        string    `json:"ev"`
	ID        int       `json:"id"`
	Scn       pipeScn   `json:"scn"`
	FileNames []string  `json:"fileNames"`
	Outcome   string    `json:"outcome"` // result | empty | error | panic
	Rows      []string  `json:"rows"`
	BaseRows  []string  `json:"baseRows"`
	Errors    []pipeErr `json:"errors"`
	Msg       string    `json:"msg"`
}

var goodDocs = map[string]string{
	"g1": "apiVersion: v1\nkind: Namespace\nmetadata:\n  name: ns1\n  labels:\n    team: x\n",
	"g2": "apiVersion: apps/v1\nkind: Deployment\nmetadata:\n  name: a\n  namespace: ns1\nspec:\n  selector:\n    matchLabels:\n      app: a\n  template:\n    metadata:\n      labels:\n        app: a\n    spec:\n      containers:\n      - name: c\n        image: img\n        ports:\n        - containerPort: 80\n",
	"g3": "apiVersion: apps/v1\nkind: Deployment\nmetadata:\n  name: b\n  namespace: ns1\nspec:\n  selector:\n    matchLabels:\n      app: b\n  template:\n    metadata:\n      labels:\n        app: b\n    spec:\n      containers:\n      - name: c\n        image: img\n",
	"g4": "apiVersion: networking.k8s.io/v1\nkind: NetworkPolicy\nmetadata:\n  name: np1\n  namespace: ns1\nspec:\n  podSelector:\n    matchLabels:\n      app: a\n  ingress:\n  - from:\n    - namespaceSelector:\n        matchLabels:\n          team: x\n      podSelector:\n        matchLabels:\n          app: b\n    ports:\n    - port: 80\n",
}

// the other side of diff scenarios: same workloads, a different policy
const otherPolicy = "apiVersion: networking.k8s.io/v1\nkind: NetworkPolicy\nmetadata:\n  name: np1\n  namespace: ns1\nspec:\n  podSelector:\n    matchLabels:\n      app: a\n  ingress:\n  - from:\n    - podSelector:\n        matchLabels:\n          app: b\n    ports:\n    - port: 8080\n  - from:\n    - ipBlock:\n        cidr: 10.0.0.0/8\n"

var otherKindDocs = []string{
	"apiVersion: v1\nkind: ConfigMap\nmetadata:\n  name: cm%d\n  namespace: ns1\ndata:\n  k: v\n",
	"apiVersion: v1\nkind: ServiceAccount\nmetadata:\n  name: sa%d\n  namespace: ns1\n",
	"apiVersion: rbac.authorization.k8s.io/v1\nkind: ClusterRole\nmetadata:\n  name: cr%d\nrules: []\n",
	"apiVersion: example.com/v1\nkind: Widget\nmetadata:\n  name: w%d\nspec:\n  podSelector: 7\n",
}

var badSchemaDocs = []string{
	"apiVersion: networking.k8s.io/v1\nkind: NetworkPolicy\nmetadata:\n  name: bad%d\n  namespace: ns1\nspec:\n  podSelector: not-a-selector\n",
	"apiVersion: apps/v1\nkind: Deployment\nmetadata:\n  name: bad%d\n  namespace: ns1\nspec:\n  replicas: many\n  template:\n    metadata:\n      labels:\n        app: a\n",
	"apiVersion: v1\nkind: Pod\nmetadata:\n  name: bad%d\n  namespace: ns1\n  labels: [a, b]\nspec:\n  containers: []\n",
	"apiVersion: networking.k8s.io/v1\nkind: NetworkPolicy\nmetadata:\n  name: bad%d\n  namespace: ns1\nspec:\n  podSelector: {}\n  ingress:\n    from: wrong\n",
	// a malformed Namespace document that carries the NAME of the good namespace and other labels: it must be reported and dropped,
	// not used (the good policy selects by the namespace's labels)
	"apiVersion: v1\nkind: Namespace\nmetadata:\n  name: ns1\n  labels:\n    team: y%d\nspec:\n  finalizers: kubernetes\n",
	"apiVersion: v1\nkind: Service\nmetadata:\n  name: bad%d\n  namespace: ns1\nspec:\n  selector:\n    app: a\n  ports: not-a-list\n",
	"apiVersion: policy.networking.k8s.io/v1alpha1\nkind: AdminNetworkPolicy\nmetadata:\n  name: bad%d\nspec:\n  priority: high\n  subject:\n    namespaces: {}\n",
	// documents whose metadata and spec are fine and whose read-only `status` section does not convert (exported objects, hand-edited):
	// they fail schema conversion as a whole - reported, and not used (each would add a workload / relabel the namespace if it were)
	"apiVersion: apps/v1\nkind: Deployment\nmetadata:\n  name: bad%d\n  namespace: ns1\nspec:\n  replicas: 1\n  selector:\n    matchLabels:\n      app: a\n  template:\n    metadata:\n      labels:\n        app: a\n    spec:\n      containers:\n      - name: c\n        image: img\nstatus:\n  replicas: three\n",
	"apiVersion: v1\nkind: Namespace\nmetadata:\n  name: ns1\n  labels:\n    team: y%d\nstatus:\n  phase: [Active]\n",
	"apiVersion: apps/v1\nkind: StatefulSet\nmetadata:\n  name: bad%d\n  namespace: ns1\nspec:\n  selector:\n    matchLabels:\n      app: b\n  template:\n    metadata:\n      labels:\n        app: b\n    spec:\n      containers:\n      - name: c\n        image: img\nstatus:\n  conditions: {type: Ready}\n",
}

var brokenFiles = []string{
	"apiVersion: v1\nkind: Pod\nmetadata:\n  name: [unclosed\n  x: : :\n",
	"apiVersion: v1\nkind: Pod\nmetadata:\n\t name: tab\n",
	"{\"apiVersion\": \"v1\", \"kind\": \"Pod\", \"metadata\": {\"name\": \"p\"\n",
}

var nokindFiles = []string{"foo: bar\nlist:\n- 1\n- 2\n", "just a line of text\n", "- a\n- b\n"}

func writeScenario(dir string, scn *pipeScn, id int) []string {
	os.RemoveAll(dir)
	os.MkdirAll(dir, 0o755)
	names := make([]string, len(scn.Files))
	for i, f := range scn.Files {
		var name, content string
		switch f.Cls {
		case "nonmanifest":
			name = fmt.Sprintf("f%02d-%s", i+1, []string{"notes.txt", "README.md", "script.sh"}[(id+i)%3])
			content = "kind: Pod\nthis is not a manifest\n"
		case "broken":
			name = fmt.Sprintf("f%02d-broken.%s", i+1, []string{"yaml", "yml", "json"}[(id+i)%3])
			content = brokenFiles[(id+i)%3]
			if strings.HasSuffix(name, ".json") {
				content = brokenFiles[2]
			}
		case "nokind":
			name = fmt.Sprintf("f%02d-nokind.yaml", i+1)
			content = nokindFiles[(id+i)%len(nokindFiles)]
		default:
			name = fmt.Sprintf("f%02d.yaml", i+1)
			var docs []string
			for k, d := range f.Docs {
				switch d {
				case "otherKind":
					docs = append(docs, fmt.Sprintf(otherKindDocs[(id+i+k)%len(otherKindDocs)], k))
				case "badSchema":
					docs = append(docs, fmt.Sprintf(badSchemaDocs[(id+i+k)%len(badSchemaDocs)], k))
				case "fatal":
					docs = append(docs, goodDocs["g4"])
				case "nokindDoc":
					docs = append(docs, nokindFiles[(id+i+k)%2])
				default:
					docs = append(docs, goodDocs[d])
				}
			}
			content = strings.Join(docs, "---\n")
		}
		names[i] = name
		os.WriteFile(filepath.Join(dir, name), []byte(content), 0o644)
	}
	return names
}

func listRows(obs *run.ListObs) []string {
	rows := []string{}
	for _, c := range obs.Conns {
		rows = append(rows, fmt.Sprintf("%s|%s|%v|%v", c.Src.Key, c.Dst.Key, c.All, c.Raw))
	}
	sort.Strings(rows)
	return rows
}

func diffRows(d *run.DiffObs) []string {
	rows := []string{}
	for _, e := range d.Entries {
		rows = append(rows, strings.Join([]string{e.Type, e.Src.Key, e.Dst.Key, e.C1, e.C2}, "|"))
	}
	sort.Strings(rows)
	return rows
}

// hasPolicy: the scenario's good documents include the NetworkPolicy g4 (the template without any policy has its own baselines)
func hasPolicy(scn *pipeScn) bool {
	for _, f := range scn.Files {
		for _, d := range f.Docs {
			if d == "g4" {
				return true
			}
		}
	}
	return false
}

type pipeBase struct{ list, diff1, diff2 []string }

func runPipe(em *emitter, root string, id int, scn pipeScn, otherDir, otherJunkDir string, withPol, noPol pipeBase) {
	if scn.Other == "junk" {
		otherDir = otherJunkDir
	}
	base := noPol
	if hasPolicy(&scn) {
		base = withPol
	}
	baseList, baseDiff1, baseDiff2 := base.list, base.diff1, base.diff2
	w := &world.World{M: 3, NAddr: 2}
	w.Normalize()
	conc := world.NewConc(w, 1)
	dir := filepath.Join(root, "scn")
	names := writeScenario(dir, &scn, id)
	ev := pipeEvent{Ev: "Pipe", ID: id, Scn: scn, FileNames: names, Rows: []string{}, BaseRows: []string{}, Errors: []pipeErr{}}
	var errs []run.ErrObs
	switch scn.Cmd {
	case "list":
		obs, _, _ := run.List(dir, w, conc, run.ListOpts{StopOnError: scn.Stop})
		errs, ev.Msg = obs.Errors, obs.ErrMsg
		ev.BaseRows = baseList
		switch obs.Outcome {
		case "ok":
			ev.Rows = listRows(&obs)
			ev.Outcome = "result"
			if len(obs.Conns) == 0 {
				ev.Outcome = "empty"
			}
		default:
			ev.Outcome = obs.Outcome
		}
	default:
		d1, d2 := dir, otherDir
		ev.BaseRows = baseDiff1
		if scn.Cmd == "diff2" {
			d1, d2 = otherDir, dir
			ev.BaseRows = baseDiff2
		}
		obs, _ := run.Diff(d1, d2, w, conc, scn.Stop, "")
		errs, ev.Msg = obs.Errors, obs.ErrMsg
		switch obs.Outcome {
		case "ok":
			ev.Rows = diffRows(&obs)
			ev.Outcome = "result"
			if len(obs.Entries) == 0 {
				ev.Outcome = "empty"
			}
		default:
			ev.Outcome = obs.Outcome
		}
	}
	for _, e := range errs {
		pe := pipeErr{Severe: e.Severe, Fatal: e.Fatal, Class: e.Class, Files: []int{}}
		for i, n := range names {
			if strings.Contains(e.Loc, n) || strings.Contains(e.Msg, n) {
				pe.Files = append(pe.Files, i+1)
			}
		}
		ev.Errors = append(ev.Errors, pe)
	}
	if len(ev.Msg) > 300 {
		ev.Msg = ev.Msg[:300]
	}
	em.emit(ev)
}

func cmdPipeline(args []string) int {
	fs := flag.NewFlagSet("pipeline", flag.ExitOnError)
	cases := fs.String("cases", "", "file with TLC-emitted CASE lines of Pipeline.tla")
	outDir := fs.String("out", "", "output dir")
	shards := fs.Int("shards", 16, "shards")
	fs.Parse(args)
	os.MkdirAll(*outDir, 0o755)
	f, err := os.Open(*cases)
	if err != nil {
		fmt.Fprintln(os.Stderr, err)
		return 2
	}
	var cs []pipeScn
	sc := bufio.NewScanner(f)
	sc.Buffer(make([]byte, 1<<20), 1<<26)
	for sc.Scan() {
		line := strings.TrimSpace(sc.Text())
		if !strings.HasPrefix(line, "\"CASE ") {
			continue
		}
		var s string
		if err := json.Unmarshal([]byte(line), &s); err != nil {
			fmt.Fprintln(os.Stderr, err)
			return 2
		}
		var c pipeScn
		if err := json.Unmarshal([]byte(s[len("CASE "):]), &c); err != nil {
			fmt.Fprintln(os.Stderr, err)
			return 2
		}
		if c.SevereFiles == nil {
			c.SevereFiles = []int{}
		}
		for i := range c.Files {
			if c.Files[i].Docs == nil {
				c.Files[i].Docs = []string{}
			}
		}
		cs = append(cs, c)
	}
	f.Close()
	root := scratchRoot()
	defer os.RemoveAll(root)
	// baselines: the good documents alone
	w := &world.World{M: 3, NAddr: 2}
	w.Normalize()
	conc := world.NewConc(w, 1)
	baseDir, otherDir := filepath.Join(root, "base"), filepath.Join(root, "other")
	os.MkdirAll(baseDir, 0o755)
	os.MkdirAll(otherDir, 0o755)
	os.WriteFile(filepath.Join(baseDir, "all.yaml"), []byte(strings.Join([]string{goodDocs["g1"], goodDocs["g2"], goodDocs["g3"], goodDocs["g4"]}, "---\n")), 0o644)
	os.WriteFile(filepath.Join(otherDir, "all.yaml"), []byte(strings.Join([]string{goodDocs["g1"], goodDocs["g2"], goodDocs["g3"], otherPolicy}, "---\n")), 0o644)
	// the same other directory with two unreadable items of its own: a YAML file that is not a manifest, and a document that is
	// not a manifest in front of the used manifests of the multi-document file
	otherJunkDir := filepath.Join(root, "otherjunk")
	os.MkdirAll(otherJunkDir, 0o755)
	os.WriteFile(filepath.Join(otherJunkDir, "all.yaml"), []byte(strings.Join([]string{nokindFiles[0], goodDocs["g1"], goodDocs["g2"], goodDocs["g3"], otherPolicy}, "---\n")), 0o644)
	os.WriteFile(filepath.Join(otherJunkDir, "zz-notes.yaml"), []byte(nokindFiles[1]), 0o644)
	// a second baseline: the good documents of the template that has no NetworkPolicy at all
	baseNoPolDir := filepath.Join(root, "base-nopol")
	os.MkdirAll(baseNoPolDir, 0o755)
	os.WriteFile(filepath.Join(baseNoPolDir, "all.yaml"), []byte(strings.Join([]string{goodDocs["g1"], goodDocs["g2"], goodDocs["g3"]}, "---\n")), 0o644)
	var bases [2]pipeBase
	for k, bdir := range []string{baseDir, baseNoPolDir} {
		bl, _, _ := run.List(bdir, w, conc, run.ListOpts{})
		bd1, _ := run.Diff(bdir, otherDir, w, conc, false, "")
		bd2, _ := run.Diff(otherDir, bdir, w, conc, false, "")
		if bl.Outcome != "ok" || len(bl.Conns) == 0 || bd1.Outcome != "ok" || len(bd1.Entries) == 0 {
			fmt.Fprintln(os.Stderr, "baseline runs failed")
			return 2
		}
		bases[k] = pipeBase{listRows(&bl), diffRows(&bd1), diffRows(&bd2)}
	}
	var wg sync.WaitGroup
	for s := 0; s < *shards; s++ {
		wg.Add(1)
		go func(s int) {
			defer wg.Done()
			em, err := newEmitter(filepath.Join(*outDir, fmt.Sprintf("shard%02d.ndjson", s)))
			if err != nil {
				panic(err)
			}
			defer em.close()
			for k := s; k < len(cs); k += *shards {
				runPipe(em, filepath.Join(root, fmt.Sprintf("p%02d", s)), k, cs[k], otherDir, otherJunkDir, bases[0], bases[1])
			}
		}(s)
	}
	wg.Wait()
	fmt.Printf("cases=%d\n", len(cs))
	return 0
}

func init() {
	register("pipeline", "materialise the scenarios of Pipeline.tla (injected irrelevant / malformed documents), run list and diff, record the outcomes (C13)", cmdPipeline)
}
