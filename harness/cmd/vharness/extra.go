package main

import (
	"crypto/sha1"
	"encoding/hex"
	"fmt"
	"math/rand"
	"os"
	"path/filepath"
	"strings"

	"verif/harness/formats"
	"verif/harness/run"
	"verif/harness/world"
)

type diffEvent struct {
	Ev  string      `json:"ev"`
	Dir string      `json:"dir"` // fwd: diff(prev, cur); rev: diff(cur, prev); self: diff(cur, cur)
	Obs run.DiffObs `json:"obs"`
}

type focusEvent struct {
	Ev  string      `json:"ev"`
	W   string      `json:"W"`
	Obs run.ListObs `json:"obs"`
}

type formatEvent struct {
	Ev       string       `json:"ev"`
	Cmd      string       `json:"cmd"`
	Fmt      string       `json:"fmt"`
	Exposure bool         `json:"exposure"`
	Outcome  string       `json:"outcome"`
	FmtErr   string       `json:"fmtErr"`
	API      formats.Rows `json:"api"`
	Out      formats.Rows `json:"out"`
	Nodes    []string     `json:"nodes"`
}

type diffFormatEvent struct {
	Ev      string           `json:"ev"`
	Fmt     string           `json:"fmt"`
	Outcome string           `json:"outcome"`
	API     formats.DiffRows `json:"api"`
	Out     formats.DiffRows `json:"out"`
}

var listFormats = []string{"txt", "json", "csv", "md", "dot"}
var diffFormats = []string{"txt", "csv", "md", "dot"}

func hasAdmin(w *world.World) bool { return len(w.Anps) > 0 || !w.Banp.Nil }

type detRun struct {
	Layout string `json:"layout"`
	Key    string `json:"key"` // cmd/format/exposure
	Hash   string `json:"hash"`
	Out    string `json:"out"` // the output itself, only kept for the first two distinct variants of a key
}

type detEvent struct {
	Ev   string   `json:"ev"`
	Runs []detRun `json:"runs"`
}

func sha(s string) string {
	h := sha1.Sum([]byte(s))
	return hex.EncodeToString(h[:8])
}

type evalEvent struct {
	Ev  string      `json:"ev"`
	Obs run.EvalObs `json:"obs"`
}

// runExtraOps is extended per property (exposure, focus, eval, diff, formats, laws).
func runExtraOps(em *emitter, dir, wdir string, c Case, conc *world.Conc, cseed int64, ops map[string]bool, bin string, gs *groupState) {
	w := c.World
	if ops["eval"] {
		em.emit(evalEvent{Ev: "Eval", Obs: run.EvalAPI(wdir, w, conc, cseed, 40)})
	}
	if ops["exposure"] && !hasAdmin(w) {
		obs, _, _ := run.List(wdir, w, conc, run.ListOpts{Exposure: true})
		em.emit(listEvent{Ev: "List", Opts: listOptsJSON{Exposure: true}, Obs: obs})
	}
	if ops["focus"] {
		cands := []string{"nosuch", "ingress-controller", "a", "/"}
		for i := range w.Workloads {
			wl := &w.Workloads[i]
			cands = append(cands, wl.Name, wl.NS+"/"+wl.Name)
			if i == 0 {
				cands = append(cands, "nsx/"+wl.Name, wl.NS+"/nosuch")
			}
			if i == (c.ID % len(w.Workloads)) {
				// near misses of an existing name: none of them names a workload (unless one happens to exist)
				cands = append(cands, wl.NS+"-"+wl.Name, wl.NS+"."+wl.Name, wl.Name+"x", "x"+wl.Name, strings.ToUpper(wl.Name),
					wl.NS+"/"+wl.Name+"x", wl.NS+"/x"+wl.Name, wl.NS+"//"+wl.Name, wl.Name+"/"+wl.NS)
				if len(wl.Name) > 1 {
					cands = append(cands, wl.Name[:len(wl.Name)-1], wl.Name[1:])
				}
			}
		}
		seen := map[string]bool{}
		n := 0
		for k, W := range cands {
			if seen[W] || (n >= 9 && (k+c.ID)%3 != 0) {
				continue
			}
			seen[W] = true
			n++
			obs, _, _ := run.List(wdir, w, conc, run.ListOpts{Focus: W})
			em.emit(focusEvent{Ev: "Focus", W: W, Obs: obs})
		}
	}
	if ops["determinism"] {
		ev := detEvent{Ev: "Determinism", Runs: []detRun{}}
		variants := map[string]map[string]bool{}
		add := func(layout, key, out string) {
			h := sha(out)
			r := detRun{Layout: layout, Key: key, Hash: h}
			if variants[key] == nil {
				variants[key] = map[string]bool{}
			}
			if !variants[key][h] && len(variants[key]) < 2 {
				r.Out = out
				if len(r.Out) > 4000 {
					r.Out = r.Out[:4000]
				}
			}
			variants[key][h] = true
			ev.Runs = append(ev.Runs, r)
		}
		lr := rand.New(rand.NewSource(cseed))
		nl := 4
		for li := 0; li < nl; li++ {
			ldir := filepath.Join(dir, fmt.Sprintf("lay%d", li))
			os.RemoveAll(ldir)
			lw := w
			var lseed int64 = -1
			if li == 1 {
				lseed = cseed + 1
			}
			if li >= 2 {
				lw = world.PermuteUnordered(w, lr)
				lseed = lr.Int63()
			}
			if err := conc.WriteWorld(ldir, lw, lseed); err != nil {
				panic(err)
			}
			lname := fmt.Sprintf("L%d", li)
			for _, exposure := range []bool{false, true} {
				if exposure && hasAdmin(w) {
					continue
				}
				for _, f := range listFormats {
					for rep := 0; rep < 2; rep++ {
						obs, out, _ := run.List(ldir, lw, conc, run.ListOpts{Exposure: exposure, Format: f})
						if obs.Outcome != "ok" {
							out = "OUTCOME:" + obs.Outcome + ":" + obs.ErrClass
						}
						add(lname, fmt.Sprintf("list/%s/%v", f, exposure), out)
					}
				}
			}
			if c.Chain && gs.prevDir != "" {
				for _, f := range diffFormats {
					d, out := run.Diff(gs.prevDir, ldir, lw, conc, false, f)
					if d.Outcome != "ok" {
						out = "OUTCOME:" + d.Outcome + ":" + d.ErrClass
					}
					add(lname, "diff/"+f, out)
				}
			}
		}
		em.emit(ev)
	}
	if ops["formats"] {
		for _, exposure := range []bool{false, true} {
			if exposure && hasAdmin(w) {
				continue // exposure analysis is disabled with admin policies by design
			}
			for _, f := range listFormats {
				obs, out, ferr := run.List(wdir, w, conc, run.ListOpts{Exposure: exposure, Format: f})
				ev := formatEvent{Ev: "Format", Cmd: "list", Fmt: f, Exposure: exposure, Outcome: obs.Outcome, FmtErr: ferr, Nodes: []string{}}
				ev.API = run.APIRows(&obs, exposure)
				if obs.Outcome == "ok" {
					ev.Out, ev.Nodes = run.ParseList(f, out, exposure, w)
				} else {
					ev.Out = formats.NewRows()
				}
				em.emit(ev)
			}
		}
		if c.Chain && gs.prevDir != "" {
			for _, f := range diffFormats {
				d, out := run.Diff(gs.prevDir, wdir, w, conc, false, f)
				ev := diffFormatEvent{Ev: "DiffFormat", Fmt: f, Outcome: d.Outcome, API: run.APIDiffRows(&d)}
				switch f {
				case "txt":
					ev.Out = formats.ParseDiffTxt(out)
				case "csv":
					ev.Out = formats.ParseDiffCSV(out)
				case "md":
					ev.Out = formats.ParseDiffMD(out)
				case "dot":
					ev.Out = formats.ParseDiffDot(out)
				}
				if f != "dot" {
					ev.Out.Rows = run.CanonDiffInfo(ev.Out.Rows)
				}
				em.emit(ev)
			}
		}
	}
	if ops["diff"] {
		if c.Chain && gs.prevDir != "" {
			d, _ := run.Diff(gs.prevDir, wdir, w, conc, false, "")
			em.emit(diffEvent{Ev: "Diff", Dir: "fwd", Obs: d})
			if c.ID%3 == 0 {
				r, _ := run.Diff(wdir, gs.prevDir, w, conc, false, "")
				em.emit(diffEvent{Ev: "Diff", Dir: "rev", Obs: r})
			}
		}
		if c.Chain && gs.baseDir != "" && gs.n >= gs.baseN+2 && c.ID%2 == 0 {
			// several edits apart: against the first world of the behaviour
			if c.ID%4 == 0 {
				d, _ := run.Diff(gs.baseDir, wdir, w, conc, false, "")
				em.emit(diffEvent{Ev: "Diff", Dir: "base", Obs: d})
			} else {
				d, _ := run.Diff(wdir, gs.baseDir, w, conc, false, "")
				em.emit(diffEvent{Ev: "Diff", Dir: "baserev", Obs: d})
			}
		}
		if c.ID%5 == 0 {
			s, _ := run.Diff(wdir, wdir, w, conc, false, "")
			em.emit(diffEvent{Ev: "Diff", Dir: "self", Obs: s})
		}
	}
	onlyPods := len(w.Workloads) > 0
	for i := range w.Workloads {
		if w.Workloads[i].Expr == "controller" {
			onlyPods = false
		}
	}
	if ops["evalcli"] && bin != "" && onlyPods {
		em.emit(evalEvent{Ev: "Eval", Obs: run.EvalCLI(bin, wdir, w, conc, cseed, 6)})
	}
}
