package main

import "verif/harness/world"

// runExtraOps is extended per property (exposure, focus, eval, diff, formats, laws).
func runExtraOps(em *emitter, dir, wdir string, c Case, conc *world.Conc, cseed int64, ops map[string]bool, bin string) {
}
