package main

import (
	"verif/harness/run"
	"verif/harness/world"
)

type diffEvent struct {
	Ev  string      `json:"ev"`
	Dir string      `json:"dir"` // fwd: diff(prev, cur); rev: diff(cur, prev); self: diff(cur, cur)
	Obs run.DiffObs `json:"obs"`
}

type focusEvent struct {
	Ev  string      `json:"ev"`
	W   string      `json:"W"`
	Obs run.ListObs `json:"obs"`
}

type evalEvent struct {
	Ev  string      `json:"ev"`
	Obs run.EvalObs `json:"obs"`
}

// runExtraOps is extended per property (exposure, focus, eval, diff, formats, laws).
func runExtraOps(em *emitter, dir, wdir string, c Case, conc *world.Conc, cseed int64, ops map[string]bool, bin string, gs *groupState) {
	w := c.World
	if ops["eval"] {
		em.emit(evalEvent{Ev: "Eval", Obs: run.EvalAPI(wdir, w, conc, cseed, 40)})
	}
	if ops["focus"] {
		cands := []string{"nosuch", "ingress-controller"}
		for i := range w.Workloads {
			wl := &w.Workloads[i]
			cands = append(cands, wl.Name, wl.NS+"/"+wl.Name)
			if i == 0 {
				cands = append(cands, "nsx/"+wl.Name, wl.NS+"/nosuch")
			}
		}
		seen := map[string]bool{}
		n := 0
		for k, W := range cands {
			if seen[W] || (n >= 7 && (k+c.ID)%3 != 0) {
				continue
			}
			seen[W] = true
			n++
			obs, _, _ := run.List(wdir, w, conc, run.ListOpts{Focus: W})
			em.emit(focusEvent{Ev: "Focus", W: W, Obs: obs})
		}
	}
	if ops["diff"] {
		if c.Chain && gs.prevDir != "" {
			d, _ := run.Diff(gs.prevDir, wdir, w, conc, false, "")
			em.emit(diffEvent{Ev: "Diff", Dir: "fwd", Obs: d})
			if c.ID%3 == 0 {
				r, _ := run.Diff(wdir, gs.prevDir, w, conc, false, "")
				em.emit(diffEvent{Ev: "Diff", Dir: "rev", Obs: r})
			}
		}
		if c.ID%5 == 0 {
			s, _ := run.Diff(wdir, wdir, w, conc, false, "")
			em.emit(diffEvent{Ev: "Diff", Dir: "self", Obs: s})
		}
	}
	onlyPods := len(w.Workloads) > 0
	for i := range w.Workloads {
		if w.Workloads[i].Expr == "controller" {
			onlyPods = false
		}
	}
	if ops["evalcli"] && bin != "" && onlyPods {
		em.emit(evalEvent{Ev: "Eval", Obs: run.EvalCLI(bin, wdir, w, conc, cseed, 6)})
	}
}
