package main

import (
	"verif/harness/run"
	"verif/harness/world"
)

type evalEvent struct {
	Ev  string      `json:"ev"`
	Obs run.EvalObs `json:"obs"`
}

// runExtraOps is extended per property (exposure, focus, eval, diff, formats, laws).
func runExtraOps(em *emitter, dir, wdir string, c Case, conc *world.Conc, cseed int64, ops map[string]bool, bin string) {
	w := c.World
	if ops["eval"] {
		em.emit(evalEvent{Ev: "Eval", Obs: run.EvalAPI(wdir, w, conc, cseed, 40)})
	}
	onlyPods := len(w.Workloads) > 0
	for i := range w.Workloads {
		if w.Workloads[i].Expr == "controller" {
			onlyPods = false
		}
	}
	if ops["evalcli"] && bin != "" && onlyPods {
		em.emit(evalEvent{Ev: "Eval", Obs: run.EvalCLI(bin, wdir, w, conc, cseed, 6)})
	}
}
