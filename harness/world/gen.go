package world

import (
	"encoding/json"
	"fmt"
	"math/rand"
)

// GenOpts bounds the seeded random world generator (direction B of DESIGN.md section 5.3: worlds larger
// than TLC's constants, judged by the trace specification, no oracle on the Go side).
type GenOpts struct {
	M         int
	NAddr     int
	MaxNS     int
	MaxWl     int
	MaxNP     int
	MaxANP    int
	BANP      bool
	Ingress   bool // Services / Ingress / Routes
	NamedIP   bool // allow named ports in egress rules that may select addresses (documented fatal error)
	OnlyPods  bool // express every workload with bare pods (needed by the eval CLI)
	Exposure  bool // bias towards the shapes exposure analysis cares about
	HasOut    bool
	KindsFree bool // any of the 8 workload kinds and expressions
	Shared    bool // some workloads of different namespaces share one name
	Collide   bool // adversarial names: two kinds with one name in a namespace; a bare Pod named like a synthetic replica pod
}

var (
	PodKeys  = []string{"app", "tier", "role"}
	PodVals  = []string{"a", "b", "c", ""} // "" : a marker label such as canary: ""
	NsKeys   = []string{"team", "env"}
	NsVals   = []string{"x", "y"}
	PortName = []string{"http", "dns", "web"}
	NameKey  = "kubernetes.io/metadata.name"
	Kinds    = []string{"Deployment", "ReplicaSet", "StatefulSet", "DaemonSet", "Job", "CronJob", "ReplicationController"}
)

type G struct {
	R *rand.Rand
	O GenOpts
	W *World
}

func pick[T any](r *rand.Rand, xs []T) T { return xs[r.Intn(len(xs))] }

func (g *G) labels(keys, vals []string, maxn int) Labels {
	l := Labels{}
	n := g.R.Intn(maxn + 1)
	for i := 0; i < n; i++ {
		l[pick(g.R, keys)] = pick(g.R, vals)
	}
	return l
}

func (g *G) nsNames() []string {
	var r []string
	for _, n := range g.W.Namespaces {
		r = append(r, n.Name)
	}
	return r
}

// Sel draws a selector from the catalogue. forNs: namespace selector (may use the automatic name label).
func (g *G) Sel(forNs bool) Sel {
	keys, vals := PodKeys, PodVals
	if forNs {
		keys, vals = NsKeys, NsVals
	}
	s := Sel{ML: Labels{}, Ex: []Expr{}}
	nameVal := func() string {
		if g.R.Intn(5) == 0 {
			return "nsx" // a namespace that does not exist in the input
		}
		return pick(g.R, g.nsNames())
	}
	switch g.R.Intn(12) {
	case 0: // empty
	case 1, 2:
		s.ML[pick(g.R, keys)] = pick(g.R, vals)
	case 3:
		s.ML[keys[0]] = pick(g.R, vals)
		s.ML[keys[1]] = pick(g.R, vals)
	case 4:
		s.Ex = append(s.Ex, Expr{Key: pick(g.R, keys), Op: "In", Vals: []string{pick(g.R, vals)}})
	case 5:
		s.Ex = append(s.Ex, Expr{Key: pick(g.R, keys), Op: "In", Vals: []string{vals[0], vals[1]}})
	case 6:
		s.Ex = append(s.Ex, Expr{Key: pick(g.R, keys), Op: "NotIn", Vals: []string{pick(g.R, vals)}})
	case 7:
		s.Ex = append(s.Ex, Expr{Key: pick(g.R, keys), Op: "Exists", Vals: []string{}})
	case 8:
		s.Ex = append(s.Ex, Expr{Key: pick(g.R, keys), Op: "DoesNotExist", Vals: []string{}})
	case 9:
		s.ML[pick(g.R, keys)] = pick(g.R, vals)
		s.Ex = append(s.Ex, Expr{Key: pick(g.R, keys), Op: pick(g.R, []string{"NotIn", "In"}), Vals: []string{pick(g.R, vals)}})
	case 10:
		if forNs {
			s.ML[NameKey] = nameVal()
		} else {
			s.Ex = append(s.Ex, Expr{Key: "zone", Op: "DoesNotExist", Vals: []string{}}) // key used by nobody
		}
	case 11:
		if forNs {
			s.Ex = append(s.Ex, Expr{Key: NameKey, Op: pick(g.R, []string{"In", "NotIn"}), Vals: []string{nameVal()}})
		} else {
			s.Ex = append(s.Ex, Expr{Key: pick(g.R, keys), Op: "NotIn", Vals: []string{vals[0], vals[2]}})
		}
	}
	return s
}

// Block draws an aligned model block.
func (g *G) Block() Cidr {
	if g.R.Intn(6) == 0 {
		return Cidr{All: true, Lo: 0, Hi: g.W.NAddr - 1}
	}
	k := log2(g.W.NAddr)
	j := g.R.Intn(k + 1) // size 2^j
	size := 1 << j
	lo := g.R.Intn(g.W.NAddr/size) * size
	return Cidr{Lo: lo, Hi: lo + size - 1}
}

// subBlock draws an aligned block strictly inside or equal to b.
func (g *G) subBlock(b Cidr) Cidr {
	lo, hi := b.Lo, b.Hi
	if b.All {
		lo, hi = 0, g.W.NAddr-1
	}
	size := hi - lo + 1
	j := g.R.Intn(log2(size) + 1)
	s := 1 << j
	if g.R.Intn(8) != 0 && s == size && size > 1 {
		s = size / 2
	}
	l := lo + g.R.Intn(size/s)*s
	return Cidr{Lo: l, Hi: l + s - 1}
}

// derivedPeer builds a pod peer whose selectors are derived from a real workload of the world and its namespace:
// the shapes exposure analysis refines (label equalities an existing workload satisfies) and their near misses
// (the same equalities plus an expression, satisfied or not; single-value In spellings; the namespace by name).
func (g *G) derivedPeer() (NPPeer, bool) {
	if len(g.W.Workloads) == 0 {
		return NPPeer{}, false
	}
	wl := g.W.Workloads[g.R.Intn(len(g.W.Workloads))]
	var nsLabels Labels
	for _, n := range g.W.Namespaces {
		if n.Name == wl.NS {
			nsLabels = n.Labels
		}
	}
	p := NPPeer{Kind: "pod", NsNil: true, PodNil: true, Excepts: []Cidr{}}
	// pod selector
	switch g.R.Intn(5) {
	case 0: // nil
	case 1:
		p.PodNil, p.PodSel = false, Sel{ML: Labels{}, Ex: []Expr{}}
	default:
		p.PodNil, p.PodSel = false, Sel{ML: Labels{}, Ex: []Expr{}}
		for k, v := range wl.Labels {
			if g.R.Intn(3) != 0 {
				if g.R.Intn(4) == 0 {
					p.PodSel.Ex = append(p.PodSel.Ex, Expr{Key: k, Op: "In", Vals: []string{v}})
				} else {
					p.PodSel.ML[k] = v
				}
			}
		}
		if g.R.Intn(5) == 0 {
			p.PodSel.Ex = append(p.PodSel.Ex, Expr{Key: pick(g.R, PodKeys), Op: pick(g.R, []string{"Exists", "DoesNotExist", "NotIn"}), Vals: []string{"c"}})
			if p.PodSel.Ex[len(p.PodSel.Ex)-1].Op != "NotIn" {
				p.PodSel.Ex[len(p.PodSel.Ex)-1].Vals = []string{}
			}
		}
	}
	// namespace selector
	switch g.R.Intn(7) {
	case 0: // nil: the policy's namespace
	case 1:
		p.NsNil, p.NsSel = false, Sel{ML: Labels{NameKey: wl.NS}, Ex: []Expr{}}
	case 2:
		p.NsNil, p.NsSel = false, Sel{ML: Labels{}, Ex: []Expr{{Key: NameKey, Op: "In", Vals: []string{wl.NS}}}}
	default:
		p.NsNil, p.NsSel = false, Sel{ML: Labels{}, Ex: []Expr{}}
		for k, v := range nsLabels {
			if g.R.Intn(3) != 0 {
				p.NsSel.ML[k] = v
			}
		}
		if g.R.Intn(2) == 0 { // the equalities plus an expression the real namespace may or may not satisfy
			e := Expr{Key: pick(g.R, NsKeys), Op: pick(g.R, []string{"In", "NotIn", "Exists", "DoesNotExist"}), Vals: []string{}}
			if e.Op == "In" || e.Op == "NotIn" {
				e.Vals = []string{pick(g.R, NsVals), "z"}
			}
			p.NsSel.Ex = append(p.NsSel.Ex, e)
		}
	}
	if p.NsNil && p.PodNil {
		p.PodNil, p.PodSel = false, Sel{ML: Labels{}, Ex: []Expr{}}
	}
	return p, true
}

func (g *G) NPPeer(egress bool) NPPeer {
	if g.O.Exposure && g.R.Intn(2) == 0 {
		if p, ok := g.derivedPeer(); ok {
			return p
		}
	}
	p := NPPeer{Kind: "pod", NsNil: true, PodNil: true, Excepts: []Cidr{}}
	switch g.R.Intn(10) {
	case 0, 1, 2: // ipBlock
		p.Kind = "ip"
		p.Cidr = g.Block()
		for i := g.R.Intn(3); i > 0; i-- {
			p.Excepts = append(p.Excepts, g.subBlock(p.Cidr))
		}
	case 3, 4: // podSelector only
		p.PodNil, p.PodSel = false, g.Sel(false)
	case 5, 6: // namespaceSelector only
		p.NsNil, p.NsSel = false, g.Sel(true)
	default:
		p.NsNil, p.NsSel = false, g.Sel(true)
		p.PodNil, p.PodSel = false, g.Sel(false)
	}
	return p
}

func (g *G) NPPort(allowNamed bool) NPPort {
	p := NPPort{ProtoNil: g.R.Intn(3) == 0, Proto: pick(g.R, []string{"TCP", "TCP", "UDP", "SCTP"}), Kind: "num", EndNil: true}
	if p.ProtoNil {
		p.Proto = "TCP"
	}
	switch g.R.Intn(8) {
	case 0: // protocol only
		p.Kind = "none"
	case 1, 2:
		if allowNamed {
			p.Kind, p.Name = "name", pick(g.R, PortName)
			break
		}
		fallthrough
	case 3, 4:
		p.Num = 1 + g.R.Intn(g.W.M)
	default:
		p.Num = 1 + g.R.Intn(g.W.M)
		p.EndNil, p.End = false, p.Num+g.R.Intn(g.W.M-p.Num+1)
	}
	return p
}

func (g *G) NPRule(egress bool) NPRule {
	r := NPRule{Peers: []NPPeer{}, Ports: []NPPort{}}
	for i := g.R.Intn(3); i > 0; i-- {
		r.Peers = append(r.Peers, g.NPPeer(egress))
	}
	mayHitIP := len(r.Peers) == 0
	for _, p := range r.Peers {
		if p.Kind == "ip" {
			mayHitIP = true
		}
	}
	allowNamed := !egress || !mayHitIP || g.O.NamedIP
	for i := g.R.Intn(3); i > 0; i-- {
		r.Ports = append(r.Ports, g.NPPort(allowNamed))
	}
	return r
}

func (g *G) Netpol(i int) Netpol {
	np := Netpol{NS: pick(g.R, g.nsNames()), Name: fmt.Sprintf("np%d", i), TypesNil: true, Types: []string{}}
	switch g.R.Intn(4) {
	case 0: // empty selector: all pods of the namespace
		np.PodSel = Sel{ML: Labels{}, Ex: []Expr{}}
	default:
		np.PodSel = g.Sel(false)
	}
	for k := g.R.Intn(3); k > 0; k-- {
		np.Ingress = append(np.Ingress, g.NPRule(false))
	}
	for k := g.R.Intn(3); k > 0; k-- {
		np.Egress = append(np.Egress, g.NPRule(true))
	}
	switch g.R.Intn(6) {
	case 0:
		np.TypesNil, np.Types = false, []string{"Ingress"}
	case 1:
		np.TypesNil, np.Types = false, []string{"Egress"}
	case 2:
		np.TypesNil, np.Types = false, []string{"Ingress", "Egress"}
	case 3:
		np.TypesNil, np.Types = false, []string{"Egress", "Ingress"}
	}
	return np
}

func (g *G) Subject() Subject {
	if g.R.Intn(2) == 0 {
		return Subject{Kind: "namespaces", NsSel: g.Sel(true), PodSel: Sel{}}
	}
	return Subject{Kind: "pods", NsSel: g.Sel(true), PodSel: g.Sel(false)}
}

func (g *G) pointPort() int { return pick(g.R, g.W.PointPorts) }

func (g *G) APort() APort {
	pr := pick(g.R, []string{"TCP", "UDP", "SCTP"})
	switch g.R.Intn(4) {
	case 0:
		return APort{Kind: "number", Proto: pr, Lo: g.pointPort()}
	case 1:
		return APort{Kind: "named", Proto: "TCP", Name: pick(g.R, PortName)}
	default:
		lo := 1 + g.R.Intn(g.W.M)
		return APort{Kind: "range", Proto: pr, Lo: lo, Hi: lo + g.R.Intn(g.W.M-lo+1)}
	}
}

func (g *G) ARule(name string, banp bool) ARule {
	acts := []string{"Allow", "Deny", "Pass"}
	if banp {
		acts = acts[:2]
	}
	r := ARule{Name: name, Action: pick(g.R, acts), PortsNil: g.R.Intn(3) == 0}
	for i := 1 + g.R.Intn(2); i > 0; i-- {
		r.Peers = append(r.Peers, g.Subject())
	}
	if !r.PortsNil {
		for i := 1 + g.R.Intn(2); i > 0; i-- {
			r.Ports = append(r.Ports, g.APort())
		}
	}
	return r
}

var Prios = []int{0, 1, 7, 50, 999, 1000}

func (g *G) ANP(i int, prio int) ANP {
	a := ANP{Name: fmt.Sprintf("anp%d", i), Priority: prio, Subject: g.Subject()}
	// up to four rules per direction: verdicts that depend on a rule scan going on past unrelated rules need three or more
	for k := g.R.Intn(5); k > 0; k-- {
		a.Ingress = append(a.Ingress, g.ARule(fmt.Sprintf("i%d", k), false))
	}
	for k := g.R.Intn(5); k > 0; k-- {
		a.Egress = append(a.Egress, g.ARule(fmt.Sprintf("e%d", k), false))
	}
	return a
}

func (g *G) Workload(i int) Workload {
	wl := Workload{NS: pick(g.R, g.nsNames()), Name: fmt.Sprintf("w%d", i), Labels: g.labels(PodKeys, PodVals, 2),
		Kind: "Deployment", Expr: "controller", Replicas: -1, PodCount: 1}
	names := append([]string{}, PortName...)
	g.R.Shuffle(len(names), func(a, b int) { names[a], names[b] = names[b], names[a] })
	for k := g.R.Intn(3); k > 0; k-- {
		cp := CPort{Proto: pick(g.R, []string{"TCP", "TCP", "UDP"}), Port: g.pointPort()}
		if g.R.Intn(3) != 0 {
			cp.Name = names[k]
		}
		wl.Ports = append(wl.Ports, cp)
	}
	switch {
	case g.O.OnlyPods:
		if g.R.Intn(2) == 0 {
			wl.Kind, wl.Expr = "Pod", "bare"
		} else {
			wl.Kind, wl.Expr, wl.PodCount = pick(g.R, []string{"ReplicaSet", "StatefulSet", "Job"}), "pods", 1+g.R.Intn(2)
		}
	case g.O.KindsFree:
		switch g.R.Intn(5) {
		case 0:
			wl.Kind, wl.Expr = "Pod", "bare"
		case 1:
			wl.Kind, wl.Expr, wl.PodCount = pick(g.R, Kinds), "pods", 1+g.R.Intn(3)
		default:
			wl.Kind = pick(g.R, Kinds)
			wl.Replicas = pick(g.R, []int{-1, 1, 2, 5})
		}
	}
	return wl
}

// Gen draws one world.
func Gen(r *rand.Rand, o GenOpts) *World {
	if o.M == 0 {
		o.M = 5
	}
	if o.NAddr == 0 {
		o.NAddr = 8
	}
	w := &World{M: o.M, NAddr: o.NAddr, HasOut: o.HasOut, Banp: BANP{Nil: true, Name: "default"}}
	// point ports: every second port, never all of them
	for p := 2; p <= o.M; p += 2 {
		w.PointPorts = append(w.PointPorts, p)
	}
	g := &G{R: r, O: o, W: w}
	nns := 1 + r.Intn(o.MaxNS)
	for i := 0; i < nns; i++ {
		w.Namespaces = append(w.Namespaces, Namespace{Name: fmt.Sprintf("ns%d", i+1), HasObject: r.Intn(3) != 0, Labels: g.labels(NsKeys, NsVals, 2)})
		if !w.Namespaces[i].HasObject {
			w.Namespaces[i].Labels = Labels{}
		}
	}
	nwl := 1 + r.Intn(o.MaxWl)
	sharedIn := map[string]bool{}
	placeholderIn := map[string]bool{}
	for i := 0; i < nwl; i++ {
		wl := g.Workload(i)
		if o.Shared && r.Intn(2) == 0 && !sharedIn[wl.NS] {
			sharedIn[wl.NS] = true
			wl.Name = "shared"
		}
		if r.Intn(12) == 0 && !placeholderIn[wl.NS] {
			// a workload that happens to carry the name the tool uses for its ingress-controller placeholder pod
			placeholderIn[wl.NS] = true
			wl.Name = "ingress-controller"
		}
		w.Workloads = append(w.Workloads, wl)
	}
	if len(w.Workloads) > 0 && len(w.Workloads) <= o.MaxWl && r.Intn(4) == 0 {
		// the same application deployed in a second namespace: same workload name, kind, labels and ports
		base := w.Workloads[r.Intn(len(w.Workloads))]
		ns := pick(r, g.nsNames())
		free := ns != base.NS
		for _, x := range w.Workloads {
			if x.NS == ns && x.Name == base.Name {
				free = false
			}
		}
		if free {
			twin := base
			twin.NS = ns
			twin.Labels = Labels{}
			for k, v := range base.Labels {
				twin.Labels[k] = v
			}
			twin.Ports = append([]CPort{}, base.Ports...)
			w.Workloads = append(w.Workloads, twin)
		}
	}
	if len(w.Workloads) > 0 && len(w.Workloads) <= o.MaxWl && r.Intn(6) == 0 {
		// a second version of an application: same namespace and labels, another name, its named container ports renumbered
		base := w.Workloads[r.Intn(len(w.Workloads))]
		v2 := base
		v2.Name = base.Name + "v2"
		v2.Labels = Labels{}
		for k, v := range base.Labels {
			v2.Labels[k] = v
		}
		v2.Ports = append([]CPort{}, base.Ports...)
		renumbered := false
		for k := range v2.Ports {
			if v2.Ports[k].Name != "" {
				for tries := 0; tries < 8; tries++ {
					if p := g.pointPort(); p != v2.Ports[k].Port {
						v2.Ports[k].Port = p
						renumbered = true
						break
					}
				}
			}
		}
		if renumbered {
			w.Workloads = append(w.Workloads, v2)
		}
	}
	if len(w.Workloads) > 0 && len(w.Workloads) <= o.MaxWl && r.Intn(8) == 0 {
		// a bare Pod that carries the name of a controller workload of its namespace (two distinct workloads: x[Pod] and x[Deployment])
		base := w.Workloads[r.Intn(len(w.Workloads))]
		clash := false
		for _, x := range w.Workloads {
			if x.NS == base.NS && x.Name == base.Name && x.Kind != base.Kind {
				clash = true
			}
		}
		if base.Expr == "controller" && !clash {
			pod := g.Workload(len(w.Workloads))
			pod.NS, pod.Name, pod.Kind, pod.Expr, pod.Replicas, pod.PodCount = base.NS, base.Name, "Pod", "bare", -1, 1
			w.Workloads = append(w.Workloads, pod)
		}
	}
	if len(w.Workloads) > 0 && len(w.Workloads) <= o.MaxWl && r.Intn(8) == 0 {
		// a workload of the same kind whose name extends another's by a suffix (cart / cart-api), placed BEFORE it half of the time:
		// their synthetic pod names (cart-1, cart-api-1) never collide and neither may shadow the other
		k := r.Intn(len(w.Workloads))
		base := w.Workloads[k]
		if base.Expr == "controller" && base.Name != "ingress-controller" {
			ext := g.Workload(len(w.Workloads))
			ext.NS, ext.Name, ext.Kind, ext.Expr, ext.Replicas, ext.PodCount = base.NS, base.Name+"-api", base.Kind, base.Expr, base.Replicas, base.PodCount
			if r.Intn(2) == 0 {
				w.Workloads = append(w.Workloads[:k], append([]Workload{ext}, w.Workloads[k:]...)...)
			} else {
				w.Workloads = append(w.Workloads, ext)
			}
		}
	}
	if len(w.Workloads) > 0 && r.Intn(10) == 0 {
		// workload names are DNS-1123 subdomains, not labels: dots are legal
		k := r.Intn(len(w.Workloads))
		if nm := w.Workloads[k].Name; nm != "ingress-controller" && nm != "shared" {
			clash := false
			for _, x := range w.Workloads {
				if x.NS == w.Workloads[k].NS && x.Name == nm+".v2" {
					clash = true
				}
			}
			if !clash {
				w.Workloads[k].Name = nm + ".v2"
			}
		}
	}
	if o.Collide && len(w.Workloads) > 0 {
		base := w.Workloads[r.Intn(len(w.Workloads))]
		if base.Expr == "controller" {
			twin := g.Workload(len(w.Workloads))
			twin.NS, twin.Expr, twin.Replicas, twin.PodCount = base.NS, "controller", -1, 1
			switch r.Intn(2) {
			case 0: // another kind with the same name
				twin.Name = base.Name
				for twin.Kind == base.Kind || twin.Kind == "Pod" {
					twin.Kind = pick(r, Kinds)
				}
			default: // a bare Pod named like the first synthetic replica pod
				twin.Name, twin.Kind, twin.Expr = base.Name+"-1", "Pod", "bare"
			}
			w.Workloads = append(w.Workloads, twin)
		}
	}
	if o.MaxNP > 0 {
		for i, n := 0, r.Intn(o.MaxNP+1); i < n; i++ {
			w.Netpols = append(w.Netpols, g.Netpol(i))
		}
	}
	if o.MaxANP > 0 {
		prios := append([]int{}, Prios...)
		r.Shuffle(len(prios), func(a, b int) { prios[a], prios[b] = prios[b], prios[a] })
		for i, n := 0, r.Intn(o.MaxANP+1); i < n; i++ {
			w.Anps = append(w.Anps, g.ANP(i, prios[i]))
		}
	}
	if o.BANP && r.Intn(2) == 0 {
		w.Banp = BANP{Nil: false, Name: "default", Subject: g.Subject()}
		for k := r.Intn(5); k > 0; k-- {
			w.Banp.Ingress = append(w.Banp.Ingress, g.ARule(fmt.Sprintf("bi%d", k), true))
		}
		for k := r.Intn(5); k > 0; k-- {
			w.Banp.Egress = append(w.Banp.Egress, g.ARule(fmt.Sprintf("be%d", k), true))
		}
	}
	w.Normalize()
	return w
}

// PermuteUnordered returns a copy of w in which everything that is semantically unordered in NetworkPolicies
// (rules of a direction, peers and ports of a rule, policyTypes, except lists)
// and in admin policies (peers and ports of a rule; NOT the rules, which are ordered) is shuffled.
func PermuteUnordered(w *World, r *rand.Rand) *World {
	c := w.Clone()
	// the inside of a label selector (order of matchExpressions and of their values) is left as written: the
	// property speaks of rules / peers, and the exposure report echoes selectors in the user's spelling
	shufSel := func(s *Sel) {}
	shufRules := func(rs []NPRule) {
		r.Shuffle(len(rs), func(i, j int) { rs[i], rs[j] = rs[j], rs[i] })
		for k := range rs {
			ps := rs[k].Peers
			r.Shuffle(len(ps), func(i, j int) { ps[i], ps[j] = ps[j], ps[i] })
			for q := range ps {
				shufSel(&ps[q].NsSel)
				shufSel(&ps[q].PodSel)
				ex := ps[q].Excepts
				r.Shuffle(len(ex), func(i, j int) { ex[i], ex[j] = ex[j], ex[i] })
			}
			po := rs[k].Ports
			r.Shuffle(len(po), func(i, j int) { po[i], po[j] = po[j], po[i] })
		}
	}
	for i := range c.Netpols {
		np := &c.Netpols[i]
		shufSel(&np.PodSel)
		t := np.Types
		r.Shuffle(len(t), func(i, j int) { t[i], t[j] = t[j], t[i] })
		shufRules(np.Ingress)
		shufRules(np.Egress)
	}
	shufA := func(rs []ARule) {
		for k := range rs {
			ps := rs[k].Peers
			r.Shuffle(len(ps), func(i, j int) { ps[i], ps[j] = ps[j], ps[i] })
			po := rs[k].Ports
			r.Shuffle(len(po), func(i, j int) { po[i], po[j] = po[j], po[i] })
		}
	}
	for i := range c.Anps {
		shufA(c.Anps[i].Ingress)
		shufA(c.Anps[i].Egress)
	}
	shufA(c.Banp.Ingress)
	shufA(c.Banp.Egress)
	return c
}

// Mutate returns a copy of w after 1..4 random edits (policies added or removed, a workload added or removed, a namespace
// relabelled): the second side of a diff whose two sides are several edits apart. Universe (M, NAddr, namespaces) unchanged.
func Mutate(w *World, r *rand.Rand, o GenOpts) *World {
	b, err := json.Marshal(w)
	if err != nil {
		panic(err)
	}
	out := &World{}
	if err := json.Unmarshal(b, out); err != nil {
		panic(err)
	}
	out.Normalize()
	if o.M == 0 {
		o.M = out.M
	}
	if o.NAddr == 0 {
		o.NAddr = out.NAddr
	}
	g := &G{R: r, O: o, W: out}
	fresh := func(prefix string, used func(string) bool) int { // an index whose name is not taken yet
		for i := 20; ; i++ {
			if !used(fmt.Sprintf("%s%d", prefix, i)) {
				return i
			}
		}
	}
	npUsed := func(n string) bool {
		for i := range out.Netpols {
			if out.Netpols[i].Name == n {
				return true
			}
		}
		return false
	}
	wlUsed := func(n string) bool {
		for i := range out.Workloads {
			if out.Workloads[i].Name == n {
				return true
			}
		}
		return false
	}
	for k, n := 0, 1+r.Intn(4); k < n; k++ {
		switch r.Intn(7) {
		case 0, 1, 2:
			out.Netpols = append(out.Netpols, g.Netpol(fresh("np", npUsed)))
		case 3:
			if len(out.Netpols) > 0 {
				i := r.Intn(len(out.Netpols))
				out.Netpols = append(out.Netpols[:i], out.Netpols[i+1:]...)
			}
		case 4:
			if len(out.Workloads) > 1 {
				i := r.Intn(len(out.Workloads))
				out.Workloads = append(out.Workloads[:i], out.Workloads[i+1:]...)
			}
		case 5:
			out.Workloads = append(out.Workloads, g.Workload(fresh("w", wlUsed)))
		case 6:
			if len(out.Namespaces) > 0 {
				i := r.Intn(len(out.Namespaces))
				if out.Namespaces[i].HasObject {
					out.Namespaces[i].Labels = g.labels(NsKeys, NsVals, 2)
				}
			}
		}
	}
	out.Normalize()
	return out
}
