// Package world defines the abstract world exchanged with the TLA+ specifications
// (DESIGN.md Appendix A). All fields are always present in JSON; slices and maps are never null.
package world

import (
	"encoding/json"
	"sort"
	"strings"
)

type Labels map[string]string

// UnmarshalJSON accepts `[]` for an empty label map: TLC prints the empty function as an empty tuple.
func (l *Labels) UnmarshalJSON(b []byte) error {
	t := strings.TrimSpace(string(b))
	if t == "[]" || t == "null" {
		*l = Labels{}
		return nil
	}
	m := map[string]string{}
	if err := json.Unmarshal(b, &m); err != nil {
		return err
	}
	*l = m
	return nil
}

type Expr struct {
	Key  string   `json:"key"`
	Op   string   `json:"op"` // In | NotIn | Exists | DoesNotExist
	Vals []string `json:"vals"`
}

type Sel struct {
	ML Labels `json:"ml"`
	Ex []Expr `json:"ex"`
}

type Namespace struct {
	Name      string `json:"name"`
	HasObject bool   `json:"hasObject"`
	Labels    Labels `json:"labels"`
}

type CPort struct {
	Name  string `json:"name"` // "" = unnamed
	Proto string `json:"proto"`
	Port  int    `json:"port"` // model point port
}

type Workload struct {
	NS     string  `json:"ns"`
	Name   string  `json:"name"`
	Labels Labels  `json:"labels"`
	Ports  []CPort `json:"ports"`
	Kind   string  `json:"kind"` // as printed in the peer name
	// Expr: "controller" (a workload object of Kind), "pods" (PodCount bare pods sharing a controller
	// ownerReference of Kind/Name), "bare" (one Pod without owner; Kind = "Pod")
	Expr     string `json:"expr"`
	Replicas int    `json:"replicas"` // -1 = field absent
	PodCount int    `json:"podCount"`
}

type Cidr struct {
	All bool `json:"all"`
	Lo  int  `json:"lo"`
	Hi  int  `json:"hi"`
}

type NPPeer struct {
	Kind    string `json:"kind"` // pod | ip
	NsNil   bool   `json:"nsNil"`
	NsSel   Sel    `json:"nsSel"`
	PodNil  bool   `json:"podNil"`
	PodSel  Sel    `json:"podSel"`
	Cidr    Cidr   `json:"cidr"`
	Excepts []Cidr `json:"excepts"`
}

type NPPort struct {
	ProtoNil bool   `json:"protoNil"`
	Proto    string `json:"proto"`
	Kind     string `json:"kind"` // none | num | name
	Num      int    `json:"num"`
	Name     string `json:"name"`
	EndNil   bool   `json:"endNil"`
	End      int    `json:"end"`
}

type NPRule struct {
	Peers []NPPeer `json:"peers"`
	Ports []NPPort `json:"ports"`
}

type Netpol struct {
	NS       string   `json:"ns"`
	Name     string   `json:"name"`
	PodSel   Sel      `json:"podSel"`
	TypesNil bool     `json:"typesNil"`
	Types    []string `json:"types"`
	Ingress  []NPRule `json:"ingress"`
	Egress   []NPRule `json:"egress"`
}

type Subject struct {
	Kind   string `json:"kind"` // namespaces | pods
	NsSel  Sel    `json:"nsSel"`
	PodSel Sel    `json:"podSel"`
}

type APort struct {
	Kind  string `json:"kind"` // number | range | named
	Proto string `json:"proto"`
	Lo    int    `json:"lo"`
	Hi    int    `json:"hi"`
	Name  string `json:"name"`
}

type ARule struct {
	Name     string    `json:"name"`
	Action   string    `json:"action"`
	Peers    []Subject `json:"peers"`
	PortsNil bool      `json:"portsNil"`
	Ports    []APort   `json:"ports"`
}

type ANP struct {
	Name     string  `json:"name"`
	Priority int     `json:"priority"`
	Subject  Subject `json:"subject"`
	Ingress  []ARule `json:"ingress"`
	Egress   []ARule `json:"egress"`
}

type BANP struct {
	Nil     bool    `json:"nil"`
	Name    string  `json:"name"`
	Subject Subject `json:"subject"`
	Ingress []ARule `json:"ingress"`
	Egress  []ARule `json:"egress"`
}

type OptPort struct {
	Nil  bool   `json:"nil"`
	Kind string `json:"kind"` // num | name
	Num  int    `json:"num"`
	Name string `json:"name"`
}

type SvcPort struct {
	Name       string  `json:"name"`
	Port       int     `json:"port"` // model point port
	TargetPort OptPort `json:"targetPort"`
}

type Service struct {
	NS       string    `json:"ns"`
	Name     string    `json:"name"`
	SelNil   bool      `json:"selNil"`
	Selector Labels    `json:"selector"`
	Ports    []SvcPort `json:"ports"`
}

type Backend struct {
	Svc  string  `json:"svc"`
	Port OptPort `json:"port"`
}

type Ingress struct {
	NS         string    `json:"ns"`
	Name       string    `json:"name"`
	DefaultNil bool      `json:"defaultNil"`
	Default    Backend   `json:"default"`
	Rules      []Backend `json:"rules"` // one path per rule
}

type Route struct {
	NS         string   `json:"ns"`
	Name       string   `json:"name"`
	To         string   `json:"to"`
	Alternates []string `json:"alternates"`
	TargetPort OptPort  `json:"targetPort"`
}

type World struct {
	M          int         `json:"M"`
	PointPorts []int       `json:"pointPorts"`
	NAddr      int         `json:"nAddr"`
	HasOut     bool        `json:"hasOut"`
	Namespaces []Namespace `json:"namespaces"`
	Workloads  []Workload  `json:"workloads"`
	Netpols    []Netpol    `json:"netpols"`
	Anps       []ANP       `json:"anps"`
	Banp       BANP        `json:"banp"`
	Services   []Service   `json:"services"`
	Ingresses  []Ingress   `json:"ingresses"`
	Routes     []Route     `json:"routes"`
}

// Normalize replaces nil slices/maps by empty ones so that JSON never contains null.
func (w *World) Normalize() {
	if w.PointPorts == nil {
		w.PointPorts = []int{}
	}
	if w.Namespaces == nil {
		w.Namespaces = []Namespace{}
	}
	for i := range w.Namespaces {
		if w.Namespaces[i].Labels == nil {
			w.Namespaces[i].Labels = Labels{}
		}
	}
	if w.Workloads == nil {
		w.Workloads = []Workload{}
	}
	for i := range w.Workloads {
		if w.Workloads[i].Labels == nil {
			w.Workloads[i].Labels = Labels{}
		}
		if w.Workloads[i].Ports == nil {
			w.Workloads[i].Ports = []CPort{}
		}
	}
	if w.Netpols == nil {
		w.Netpols = []Netpol{}
	}
	for i := range w.Netpols {
		np := &w.Netpols[i]
		normSel(&np.PodSel)
		if np.Types == nil {
			np.Types = []string{}
		}
		np.Ingress = normRules(np.Ingress)
		np.Egress = normRules(np.Egress)
	}
	if w.Anps == nil {
		w.Anps = []ANP{}
	}
	for i := range w.Anps {
		normSubject(&w.Anps[i].Subject)
		w.Anps[i].Ingress = normARules(w.Anps[i].Ingress)
		w.Anps[i].Egress = normARules(w.Anps[i].Egress)
	}
	normSubject(&w.Banp.Subject)
	w.Banp.Ingress = normARules(w.Banp.Ingress)
	w.Banp.Egress = normARules(w.Banp.Egress)
	if w.Banp.Subject.Kind == "" {
		w.Banp.Subject.Kind = "namespaces"
	}
	if w.Services == nil {
		w.Services = []Service{}
	}
	for i := range w.Services {
		if w.Services[i].Selector == nil {
			w.Services[i].Selector = Labels{}
		}
		if w.Services[i].Ports == nil {
			w.Services[i].Ports = []SvcPort{}
		}
	}
	if w.Ingresses == nil {
		w.Ingresses = []Ingress{}
	}
	for i := range w.Ingresses {
		if w.Ingresses[i].Rules == nil {
			w.Ingresses[i].Rules = []Backend{}
		}
	}
	if w.Routes == nil {
		w.Routes = []Route{}
	}
	for i := range w.Routes {
		if w.Routes[i].Alternates == nil {
			w.Routes[i].Alternates = []string{}
		}
	}
}

func normSel(s *Sel) {
	if s.ML == nil {
		s.ML = Labels{}
	}
	if s.Ex == nil {
		s.Ex = []Expr{}
	}
	for i := range s.Ex {
		if s.Ex[i].Vals == nil {
			s.Ex[i].Vals = []string{}
		}
	}
}

func normSubject(s *Subject) {
	normSel(&s.NsSel)
	normSel(&s.PodSel)
}

func normRules(rs []NPRule) []NPRule {
	if rs == nil {
		return []NPRule{}
	}
	for i := range rs {
		if rs[i].Peers == nil {
			rs[i].Peers = []NPPeer{}
		}
		for j := range rs[i].Peers {
			p := &rs[i].Peers[j]
			normSel(&p.NsSel)
			normSel(&p.PodSel)
			if p.Excepts == nil {
				p.Excepts = []Cidr{}
			}
		}
		if rs[i].Ports == nil {
			rs[i].Ports = []NPPort{}
		}
	}
	return rs
}

func normARules(rs []ARule) []ARule {
	if rs == nil {
		return []ARule{}
	}
	for i := range rs {
		if rs[i].Peers == nil {
			rs[i].Peers = []Subject{}
		}
		for j := range rs[i].Peers {
			normSubject(&rs[i].Peers[j])
		}
		if rs[i].Ports == nil {
			rs[i].Ports = []APort{}
		}
	}
	return rs
}

func (w *World) JSON() []byte {
	w.Normalize()
	b, err := json.Marshal(w)
	if err != nil {
		panic(err)
	}
	return b
}

func Parse(b []byte) (*World, error) {
	w := &World{}
	if err := json.Unmarshal(b, w); err != nil {
		return nil, err
	}
	w.Normalize()
	return w, nil
}

func (w *World) Clone() *World {
	c, err := Parse(w.JSON())
	if err != nil {
		panic(err)
	}
	return c
}

func SortedKeys(l Labels) []string {
	ks := make([]string, 0, len(l))
	for k := range l {
		ks = append(ks, k)
	}
	sort.Strings(ks)
	return ks
}

// WKey is the peer name the tool prints for a workload.
func (wl *Workload) WKey() string { return wl.NS + "/" + wl.Name + "[" + wl.Kind + "]" }
