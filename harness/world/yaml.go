package world

import (
	"fmt"
	"math/rand"
	"os"
	"path/filepath"
	"sort"
	"strings"

	"sigs.k8s.io/yaml"
)

type obj = map[string]interface{}

// Doc is one YAML document of the concretised world.
type Doc struct {
	ID   string // e.g. "ns:0", "wl:2", "wl:2:pod:1", "np:1", "anp:0", "banp", "svc:0", "ing:0", "rt:0"
	Kind string
	Obj  obj
}

// Style controls seeded spelling choices that must not change the meaning.
type Style struct {
	R *rand.Rand
}

func (s *Style) coin() bool { return s.R != nil && s.R.Intn(2) == 0 }

func selObj(s Sel) obj {
	o := obj{}
	if len(s.ML) > 0 {
		ml := obj{}
		for k, v := range s.ML {
			ml[k] = v
		}
		o["matchLabels"] = ml
	}
	if len(s.Ex) > 0 {
		var ex []interface{}
		for _, e := range s.Ex {
			eo := obj{"key": e.Key, "operator": e.Op}
			if e.Op == "In" || e.Op == "NotIn" {
				vs := []interface{}{}
				for _, v := range e.Vals {
					vs = append(vs, v)
				}
				eo["values"] = vs
			}
			ex = append(ex, eo)
		}
		o["matchExpressions"] = ex
	}
	return o
}

func labelsObj(l Labels) obj {
	o := obj{}
	for k, v := range l {
		o[k] = v
	}
	return o
}

func meta(name, ns string, labels Labels) obj {
	m := obj{"name": name}
	if ns != "" {
		m["namespace"] = ns
	}
	if len(labels) > 0 {
		m["labels"] = labelsObj(labels)
	}
	return m
}

func (c *Conc) containerPorts(wl *Workload, st *Style) []interface{} {
	var ps []interface{}
	for _, p := range wl.Ports {
		po := obj{"containerPort": c.PortLo(p.Port)}
		if p.Name != "" {
			po["name"] = p.Name
		}
		if p.Proto != "TCP" || st.coin() {
			po["protocol"] = p.Proto
		}
		ps = append(ps, po)
	}
	return ps
}

func (c *Conc) podSpec(wl *Workload, st *Style) obj {
	cont := obj{"name": "c", "image": "img"}
	ps := c.containerPorts(wl, st)
	if len(ps) > 0 {
		cont["ports"] = ps
	}
	conts := []interface{}{cont}
	// the same ports, in the same order, spread over two containers; a sidecar without ports
	if len(ps) >= 2 && st.oneIn(3) {
		k := 1 + st.R.Intn(len(ps)-1)
		cont["ports"] = ps[:k]
		conts = append(conts, obj{"name": "c2", "image": "img2", "ports": ps[k:]})
	}
	if st.oneIn(4) {
		side := obj{"name": "sidecar", "image": "proxy"}
		if st.coin() {
			side["ports"] = st.emptyOrNull()
		}
		if st.coin() {
			conts = append(conts, side)
		} else {
			conts = append([]interface{}{side}, conts...)
		}
	}
	return obj{"containers": conts}
}

var apiVersions = map[string]string{
	"Deployment": "apps/v1", "ReplicaSet": "apps/v1", "StatefulSet": "apps/v1", "DaemonSet": "apps/v1",
	"Job": "batch/v1", "CronJob": "batch/v1", "ReplicationController": "v1", "Pod": "v1",
}

// PodNames returns the names of the bare pods that express a "pods"/"bare" workload.
func (wl *Workload) PodNames() []string {
	switch wl.Expr {
	case "bare":
		return []string{wl.Name}
	case "pods":
		var r []string
		for i := 0; i < wl.PodCount; i++ {
			r = append(r, fmt.Sprintf("%s-%c%c%c", wl.Name, 'p'+rune(i), 'x', 'q'))
		}
		return r
	}
	return nil
}

func (c *Conc) workloadDocs(i int, wl *Workload, st *Style) []Doc {
	tmpl := obj{"metadata": obj{"labels": labelsObj(wl.Labels)}, "spec": c.podSpec(wl, st)}
	if len(wl.Labels) == 0 {
		tmpl["metadata"] = obj{}
	}
	id := fmt.Sprintf("wl:%d", i)
	switch wl.Expr {
	case "bare", "pods":
		var docs []Doc
		for j, pn := range wl.PodNames() {
			m := meta(pn, wl.NS, wl.Labels)
			// a non-controlling owner (controller: false, or the field omitted) never determines the workload; it may be
			// listed before the controlling one, or be the only reference of a bare pod
			other := obj{"apiVersion": "app.k8s.io/v1beta1", "kind": "Application", "name": "umbrella",
				"uid": "11111111-0000-0000-0000-000000000000", "blockOwnerDeletion": true}
			if st.coin() {
				other["controller"] = false
			}
			if wl.Expr == "pods" {
				refs := []interface{}{obj{"apiVersion": apiVersions[wl.Kind], "kind": wl.Kind,
					"name": wl.Name, "uid": "00000000-0000-0000-0000-000000000000", "controller": true}}
				if st.coin() {
					if st.coin() {
						refs = append([]interface{}{other}, refs...)
					} else {
						refs = append(refs, other)
					}
				}
				m["ownerReferences"] = refs
			} else if st.coin() && st.coin() {
				m["ownerReferences"] = []interface{}{other}
			}
			o := obj{"apiVersion": "v1", "kind": "Pod", "metadata": m, "spec": c.podSpec(wl, st)}
			if st.coin() {
				o["status"] = obj{"hostIP": "192.168.49.2", "podIPs": []interface{}{obj{"ip": fmt.Sprintf("10.244.%d.%d", i, j+3)}}}
			}
			docs = append(docs, Doc{ID: fmt.Sprintf("%s:pod:%d", id, j), Kind: "Pod", Obj: o})
		}
		return docs
	}
	spec := obj{}
	sel := obj{"matchLabels": labelsObj(wl.Labels)}
	switch wl.Kind {
	case "Deployment", "ReplicaSet", "StatefulSet":
		if wl.Replicas >= 0 {
			spec["replicas"] = wl.Replicas
		}
		spec["selector"] = sel
		spec["template"] = tmpl
		if wl.Kind == "StatefulSet" {
			spec["serviceName"] = wl.Name
		}
	case "DaemonSet":
		spec["selector"] = sel
		spec["template"] = tmpl
	case "ReplicationController":
		if wl.Replicas >= 0 {
			spec["replicas"] = wl.Replicas
		}
		spec["selector"] = labelsObj(wl.Labels)
		spec["template"] = tmpl
	case "Job":
		if wl.Replicas >= 0 {
			spec["parallelism"] = wl.Replicas
		}
		spec["template"] = tmpl
	case "CronJob":
		spec["schedule"] = "*/5 * * * *"
		spec["jobTemplate"] = obj{"spec": obj{"template": tmpl}}
	default:
		panic("unknown workload kind " + wl.Kind)
	}
	o := obj{"apiVersion": apiVersions[wl.Kind], "kind": wl.Kind, "metadata": meta(wl.Name, wl.NS, nil), "spec": spec}
	return []Doc{{ID: id, Kind: wl.Kind, Obj: o}}
}

func (c *Conc) npPortObj(p NPPort) obj {
	o := obj{}
	if !p.ProtoNil {
		o["protocol"] = p.Proto
	}
	switch p.Kind {
	case "num":
		o["port"] = c.PortLo(p.Num)
		end := p.Num
		if !p.EndNil {
			end = p.End
		}
		if !p.EndNil || c.PortHi(end) != c.PortLo(p.Num) {
			o["endPort"] = c.PortHi(end)
		}
	case "name":
		o["port"] = p.Name
	}
	return o
}

func (c *Conc) npPeerObj(p NPPeer) obj {
	o := obj{}
	if p.Kind == "ip" {
		ib := obj{"cidr": c.CidrStr(p.Cidr)}
		if len(p.Excepts) > 0 {
			var ex []interface{}
			for _, e := range p.Excepts {
				ex = append(ex, c.CidrStr(e))
			}
			ib["except"] = ex
		}
		o["ipBlock"] = ib
		return o
	}
	if !p.NsNil {
		o["namespaceSelector"] = selObj(p.NsSel)
	}
	if !p.PodNil {
		o["podSelector"] = selObj(p.PodSel)
	}
	return o
}

func (c *Conc) npRules(rules []NPRule, peersKey string) []interface{} {
	res := []interface{}{}
	for _, r := range rules {
		ro := obj{}
		if len(r.Peers) > 0 {
			var ps []interface{}
			for _, p := range r.Peers {
				ps = append(ps, c.npPeerObj(p))
			}
			ro[peersKey] = ps
		}
		if len(r.Ports) > 0 {
			var ps []interface{}
			for _, p := range r.Ports {
				ps = append(ps, c.npPortObj(p))
			}
			ro["ports"] = ps
		}
		res = append(res, ro)
	}
	return res
}

func (c *Conc) netpolDoc(i int, np *Netpol) Doc {
	spec := obj{"podSelector": selObj(np.PodSel)}
	if !np.TypesNil {
		ts := []interface{}{}
		for _, t := range np.Types {
			ts = append(ts, t)
		}
		spec["policyTypes"] = ts
	}
	if len(np.Ingress) > 0 {
		spec["ingress"] = c.npRules(np.Ingress, "from")
	}
	if len(np.Egress) > 0 {
		spec["egress"] = c.npRules(np.Egress, "to")
	}
	o := obj{"apiVersion": "networking.k8s.io/v1", "kind": "NetworkPolicy", "metadata": meta(np.Name, np.NS, nil), "spec": spec}
	return Doc{ID: fmt.Sprintf("np:%d", i), Kind: "NetworkPolicy", Obj: o}
}

func subjectObj(s Subject) obj {
	if s.Kind == "namespaces" {
		return obj{"namespaces": selObj(s.NsSel)}
	}
	return obj{"pods": obj{"namespaceSelector": selObj(s.NsSel), "podSelector": selObj(s.PodSel)}}
}

func (c *Conc) aRules(rules []ARule, peersKey string) []interface{} {
	res := []interface{}{}
	for _, r := range rules {
		ro := obj{"action": r.Action}
		if r.Name != "" {
			ro["name"] = r.Name
		}
		var ps []interface{}
		for _, p := range r.Peers {
			ps = append(ps, subjectObj(p))
		}
		ro[peersKey] = ps
		if !r.PortsNil {
			pl := []interface{}{}
			for _, p := range r.Ports {
				switch p.Kind {
				case "number":
					pl = append(pl, obj{"portNumber": obj{"protocol": p.Proto, "port": c.PortLo(p.Lo)}})
				case "range":
					pl = append(pl, obj{"portRange": obj{"protocol": p.Proto, "start": c.PortLo(p.Lo), "end": c.PortHi(p.Hi)}})
				case "named":
					pl = append(pl, obj{"namedPort": p.Name})
				}
			}
			ro["ports"] = pl
		}
		res = append(res, ro)
	}
	return res
}

func (c *Conc) anpDoc(i int, a *ANP) Doc {
	spec := obj{"priority": a.Priority, "subject": subjectObj(a.Subject)}
	if len(a.Ingress) > 0 {
		spec["ingress"] = c.aRules(a.Ingress, "from")
	}
	if len(a.Egress) > 0 {
		spec["egress"] = c.aRules(a.Egress, "to")
	}
	o := obj{"apiVersion": "policy.networking.k8s.io/v1alpha1", "kind": "AdminNetworkPolicy", "metadata": obj{"name": a.Name}, "spec": spec}
	return Doc{ID: fmt.Sprintf("anp:%d", i), Kind: "AdminNetworkPolicy", Obj: o}
}

func (c *Conc) banpDoc(b *BANP) Doc {
	spec := obj{"subject": subjectObj(b.Subject)}
	if len(b.Ingress) > 0 {
		spec["ingress"] = c.aRules(b.Ingress, "from")
	}
	if len(b.Egress) > 0 {
		spec["egress"] = c.aRules(b.Egress, "to")
	}
	o := obj{"apiVersion": "policy.networking.k8s.io/v1alpha1", "kind": "BaselineAdminNetworkPolicy", "metadata": obj{"name": b.Name}, "spec": spec}
	return Doc{ID: "banp", Kind: "BaselineAdminNetworkPolicy", Obj: o}
}

func (c *Conc) optPort(p OptPort) interface{} {
	if p.Kind == "name" {
		return p.Name
	}
	return c.PortLo(p.Num)
}

func (c *Conc) svcDoc(i int, s *Service) Doc {
	spec := obj{}
	if !s.SelNil {
		spec["selector"] = labelsObj(s.Selector)
	} else if i%2 == 1 {
		spec["selector"] = obj{} // no selector, spelled out
	}
	var ps []interface{}
	for _, p := range s.Ports {
		po := obj{"port": c.PortLo(p.Port)}
		if (i+len(ps))%3 != 0 {
			po["protocol"] = "TCP" // the default, spelled out or not
		}
		if p.Name != "" {
			po["name"] = p.Name
		}
		if !p.TargetPort.Nil {
			po["targetPort"] = c.optPort(p.TargetPort)
		}
		ps = append(ps, po)
	}
	spec["ports"] = ps
	o := obj{"apiVersion": "v1", "kind": "Service", "metadata": meta(s.Name, s.NS, nil), "spec": spec}
	return Doc{ID: fmt.Sprintf("svc:%d", i), Kind: "Service", Obj: o}
}

func (c *Conc) backendObj(b Backend) obj {
	po := obj{}
	if b.Port.Kind == "name" {
		po["name"] = b.Port.Name
	} else {
		po["number"] = c.PortLo(b.Port.Num)
	}
	return obj{"service": obj{"name": b.Svc, "port": po}}
}

func (c *Conc) ingDoc(i int, g *Ingress) Doc {
	spec := obj{}
	if !g.DefaultNil {
		spec["defaultBackend"] = c.backendObj(g.Default)
	}
	var rules []interface{}
	if i%2 == 1 && len(g.Rules) >= 2 {
		// the same backends as several paths of ONE rule (no host), instead of one rule per backend
		var paths []interface{}
		for j, b := range g.Rules {
			paths = append(paths, obj{"path": fmt.Sprintf("/p%d", j), "pathType": "Prefix", "backend": c.backendObj(b)})
		}
		rules = append(rules, obj{"http": obj{"paths": paths}})
	} else {
		for j, b := range g.Rules {
			rules = append(rules, obj{"host": fmt.Sprintf("h%d.example.com", j), "http": obj{"paths": []interface{}{
				obj{"path": "/", "pathType": "Prefix", "backend": c.backendObj(b)}}}})
		}
	}
	if i%3 == 0 {
		spec["ingressClassName"] = "nginx"
	}
	if len(rules) > 0 {
		spec["rules"] = rules
	}
	o := obj{"apiVersion": "networking.k8s.io/v1", "kind": "Ingress", "metadata": meta(g.Name, g.NS, nil), "spec": spec}
	return Doc{ID: fmt.Sprintf("ing:%d", i), Kind: "Ingress", Obj: o}
}

func (c *Conc) routeDoc(i int, r *Route) Doc {
	spec := obj{"to": obj{"kind": "Service", "name": r.To}}
	if len(r.Alternates) > 0 {
		var al []interface{}
		for _, a := range r.Alternates {
			al = append(al, obj{"kind": "Service", "name": a})
		}
		spec["alternateBackends"] = al
	}
	if !r.TargetPort.Nil {
		spec["port"] = obj{"targetPort": c.optPort(r.TargetPort)}
	}
	o := obj{"apiVersion": "route.openshift.io/v1", "kind": "Route", "metadata": meta(r.Name, r.NS, nil), "spec": spec}
	return Doc{ID: fmt.Sprintf("rt:%d", i), Kind: "Route", Obj: o}
}

// Docs renders every document of the world, in canonical order.
func (c *Conc) Docs(w *World, st *Style) []Doc {
	if st == nil {
		st = &Style{}
	}
	var docs []Doc
	for i := range w.Namespaces {
		n := &w.Namespaces[i]
		if !n.HasObject {
			continue
		}
		docs = append(docs, Doc{ID: fmt.Sprintf("ns:%d", i), Kind: "Namespace",
			Obj: obj{"apiVersion": "v1", "kind": "Namespace", "metadata": meta(n.Name, "", n.Labels)}})
	}
	for i := range w.Workloads {
		docs = append(docs, c.workloadDocs(i, &w.Workloads[i], st)...)
	}
	for i := range w.Netpols {
		docs = append(docs, c.netpolDoc(i, &w.Netpols[i]))
	}
	for i := range w.Anps {
		docs = append(docs, c.anpDoc(i, &w.Anps[i]))
	}
	if !w.Banp.Nil {
		docs = append(docs, c.banpDoc(&w.Banp))
	}
	for i := range w.Services {
		docs = append(docs, c.svcDoc(i, &w.Services[i]))
	}
	for i := range w.Ingresses {
		docs = append(docs, c.ingDoc(i, &w.Ingresses[i]))
	}
	for i := range w.Routes {
		docs = append(docs, c.routeDoc(i, &w.Routes[i]))
	}
	// objects of the namespace "default" may leave metadata.namespace out (seeded, per object)
	for i := range docs {
		if m, ok := docs[i].Obj["metadata"].(obj); ok && m["namespace"] == "default" && st.coin() {
			delete(m, "namespace")
		}
	}
	respell(docs, st)
	return docs
}

func (s *Style) oneIn(n int) bool { return s.R != nil && s.R.Intn(n) == 0 }

// emptyOrNull: an absent list spelled out as [] or as null
func (s *Style) emptyOrNull() interface{} {
	if s.coin() {
		return []interface{}{}
	}
	return nil
}

func respellSelectors(x interface{}, st *Style) {
	switch v := x.(type) {
	case obj:
		for k, c := range v {
			if (k == "podSelector" || k == "namespaceSelector" || k == "namespaces") && c != nil {
				if so, ok := c.(obj); ok {
					if _, has := so["matchLabels"]; !has && st.oneIn(4) {
						so["matchLabels"] = obj{}
					}
					if _, has := so["matchExpressions"]; !has && st.oneIn(4) {
						so["matchExpressions"] = st.emptyOrNull()
					}
				}
			}
			respellSelectors(c, st)
		}
	case []interface{}:
		for _, c := range v {
			respellSelectors(c, st)
		}
	}
}

// respell: semantically neutral re-spellings of the canonical documents, the way manifests look in the wild -- absent lists
// written as [] or null, empty matchLabels / matchExpressions, the read-only metadata and status of an exported object.
func respell(docs []Doc, st *Style) {
	if st == nil || st.R == nil {
		return
	}
	for i := range docs {
		o := docs[i].Obj
		if m, ok := o["metadata"].(obj); ok && docs[i].Kind != "Namespace" {
			if st.oneIn(4) {
				m["creationTimestamp"] = nil
			}
			if st.oneIn(5) {
				m["annotations"] = obj{"kubectl.kubernetes.io/last-applied-configuration": "{}", "note": "exported"}
				m["resourceVersion"] = "12345"
				m["uid"] = "6f1c2a3e-0000-4000-8000-00000000abcd"
				m["generation"] = 3
			}
		}
		if docs[i].Kind == "NetworkPolicy" {
			spec, _ := o["spec"].(obj)
			if spec != nil {
				for _, key := range []struct{ sec, peers string }{{"ingress", "from"}, {"egress", "to"}} {
					rules, has := spec[key.sec].([]interface{})
					if !has {
						// (without policyTypes Egress is governed only if there are egress RULES: an empty section is no rule)
						if st.oneIn(4) {
							spec[key.sec] = st.emptyOrNull()
						}
						continue
					}
					for _, r := range rules {
						ro, _ := r.(obj)
						if ro == nil {
							continue
						}
						if _, has := ro[key.peers]; !has && st.oneIn(3) {
							ro[key.peers] = st.emptyOrNull()
						}
						if _, has := ro["ports"]; !has && st.oneIn(3) {
							ro["ports"] = st.emptyOrNull()
						}
					}
				}
				if st.oneIn(5) {
					o["status"] = obj{}
				}
			}
		}
		if docs[i].Kind == "AdminNetworkPolicy" || docs[i].Kind == "BaselineAdminNetworkPolicy" {
			// portNumber / portRange: protocol defaults to TCP (CRD default) - spelled out or not, per entry
			spec, _ := o["spec"].(obj)
			for _, sec := range []string{"ingress", "egress"} {
				rules, _ := spec[sec].([]interface{})
				for _, r := range rules {
					ro, _ := r.(obj)
					pl, _ := ro["ports"].([]interface{})
					for _, p := range pl {
						po, _ := p.(obj)
						for _, k := range []string{"portNumber", "portRange"} {
							if e, ok := po[k].(obj); ok && e["protocol"] == "TCP" && st.coin() {
								delete(e, "protocol")
							}
						}
					}
				}
			}
		}
		respellSelectors(o["spec"], st)
		if docs[i].Kind == "NetworkPolicy" {
			respellCidrs(o["spec"], st)
		}
	}
}

// hostBits: the same network written with host bits set ("10.1.2.3/8" is 10.0.0.0/8)
func hostBits(cidr string, st *Style) string {
	var a, b, c, d, n int
	if _, err := fmt.Sscanf(cidr, "%d.%d.%d.%d/%d", &a, &b, &c, &d, &n); err != nil || n >= 32 {
		return cidr
	}
	ip := uint32(a)<<24 | uint32(b)<<16 | uint32(c)<<8 | uint32(d)
	ip |= st.R.Uint32() >> uint(n)
	if n == 0 {
		ip = st.R.Uint32()
	}
	return fmt.Sprintf("%s/%d", IPStr(ip), n)
}

func respellCidrs(x interface{}, st *Style) {
	switch v := x.(type) {
	case obj:
		if ib, ok := v["ipBlock"].(obj); ok {
			if cs, ok := ib["cidr"].(string); ok && st.oneIn(3) {
				ib["cidr"] = hostBits(cs, st)
			}
			if ex, ok := ib["except"].([]interface{}); ok {
				for k := range ex {
					if es, ok := ex[k].(string); ok && st.oneIn(3) {
						ex[k] = hostBits(es, st)
					}
				}
			}
		}
		for _, c := range v {
			respellCidrs(c, st)
		}
	case []interface{}:
		for _, c := range v {
			respellCidrs(c, st)
		}
	}
}

func (d *Doc) YAML() string {
	b, err := yaml.Marshal(d.Obj)
	if err != nil {
		panic(err)
	}
	return string(b)
}

// Layout: how documents are spread over files. Files maps a relative path to the ordered doc indices.
type Layout struct {
	Files    []string
	DocsOf   [][]int
	ListWrap []bool // wrap this file's documents into one `kind: List`
}

// LayoutOneFile puts all docs, in order, in a single file.
func LayoutOneFile(n int) Layout {
	idx := make([]int, n)
	for i := range idx {
		idx[i] = i
	}
	return Layout{Files: []string{"all.yaml"}, DocsOf: [][]int{idx}, ListWrap: []bool{false}}
}

// LayoutFilePerDoc puts each doc in its own file.
func LayoutFilePerDoc(n int) Layout {
	l := Layout{}
	for i := 0; i < n; i++ {
		l.Files = append(l.Files, fmt.Sprintf("d%03d.yaml", i))
		l.DocsOf = append(l.DocsOf, []int{i})
		l.ListWrap = append(l.ListWrap, false)
	}
	return l
}

// LayoutRandom: seeded permutation, partition into files in nested sub-directories, optional List wrapping.
func LayoutRandom(n int, r *rand.Rand) Layout {
	perm := r.Perm(n)
	l := Layout{}
	nfiles := 1 + r.Intn(n+1)
	if nfiles > n {
		nfiles = n
	}
	if nfiles < 1 {
		nfiles = 1
	}
	dirs := []string{"", "a/", "a/b/", "z/", "m/n/o/"}
	exts := []string{".yaml", ".yml", ".json"}
	buckets := make([][]int, nfiles)
	for k, d := range perm {
		b := k % nfiles
		if k >= nfiles {
			b = r.Intn(nfiles)
		}
		buckets[b] = append(buckets[b], d)
	}
	for f, b := range buckets {
		if len(b) == 0 {
			continue
		}
		ext := exts[0]
		if r.Intn(4) == 0 {
			ext = exts[1]
		}
		l.Files = append(l.Files, fmt.Sprintf("%sf%02d_%d%s", dirs[r.Intn(len(dirs))], f, r.Intn(100), ext))
		l.DocsOf = append(l.DocsOf, b)
		l.ListWrap = append(l.ListWrap, r.Intn(4) == 0)
	}
	return l
}

// WriteDir writes the docs under dir following the layout. Returns the written relative paths.
func WriteDir(dir string, docs []Doc, l Layout) error {
	if err := os.MkdirAll(dir, 0o755); err != nil {
		return err
	}
	for f, name := range l.Files {
		var sb strings.Builder
		if l.ListWrap[f] {
			items := []interface{}{}
			for _, d := range l.DocsOf[f] {
				items = append(items, docs[d].Obj)
			}
			b, err := yaml.Marshal(obj{"apiVersion": "v1", "kind": "List", "items": items})
			if err != nil {
				return err
			}
			sb.Write(b)
		} else {
			for k, d := range l.DocsOf[f] {
				if k > 0 {
					sb.WriteString("---\n")
				}
				sb.WriteString(docs[d].YAML())
			}
		}
		p := filepath.Join(dir, name)
		if err := os.MkdirAll(filepath.Dir(p), 0o755); err != nil {
			return err
		}
		if err := os.WriteFile(p, []byte(sb.String()), 0o644); err != nil {
			return err
		}
	}
	return nil
}

// WriteWorld is the common path: canonical docs, seeded layout (seed<0: one file).
func (c *Conc) WriteWorld(dir string, w *World, layoutSeed int64) error {
	var st *Style
	var l Layout
	if layoutSeed < 0 {
		st = &Style{}
		docs := c.Docs(w, st)
		return WriteDir(dir, docs, LayoutOneFile(len(docs)))
	}
	r := rand.New(rand.NewSource(layoutSeed))
	st = &Style{R: r}
	docs := c.Docs(w, st)
	if len(docs) == 0 {
		return os.MkdirAll(dir, 0o755)
	}
	switch r.Intn(3) {
	case 0:
		l = LayoutOneFile(len(docs))
	case 1:
		l = LayoutFilePerDoc(len(docs))
	default:
		l = LayoutRandom(len(docs), r)
	}
	return WriteDir(dir, docs, l)
}

var _ = sort.Strings

// EnginePod is one pod of an engine history (C15).
type EnginePod struct {
	NS        string  `json:"ns"`
	Name      string  `json:"name"`
	Owner     string  `json:"owner"`
	OwnerKind string  `json:"ownerKind"`
	Labels    Labels  `json:"labels"`
	Ports     []CPort `json:"ports"`
}

// PodObj renders an engine pod (with status, as an informer would deliver it).
func (c *Conc) PodObj(p *EnginePod) map[string]interface{} {
	wl := &Workload{NS: p.NS, Name: p.Name, Labels: p.Labels, Ports: p.Ports}
	m := meta(p.Name, p.NS, p.Labels)
	if p.Owner != "" {
		m["ownerReferences"] = []interface{}{obj{"apiVersion": apiVersions[p.OwnerKind], "kind": p.OwnerKind,
			"name": p.Owner, "uid": "00000000-0000-0000-0000-000000000000", "controller": true}}
	}
	return obj{"apiVersion": "v1", "kind": "Pod", "metadata": m, "spec": c.podSpec(wl, &Style{}),
		"status": obj{"hostIP": "192.168.49.2", "podIPs": []interface{}{obj{"ip": "10.244.0.3"}}}}
}

func (c *Conc) NamespaceObj(name string, labels Labels) map[string]interface{} {
	return obj{"apiVersion": "v1", "kind": "Namespace", "metadata": meta(name, "", labels)}
}

func (c *Conc) NetpolObj(np *Netpol) map[string]interface{} { return c.netpolDoc(0, np).Obj }
func (c *Conc) ANPObj(a *ANP) map[string]interface{}        { return c.anpDoc(0, a).Obj }
func (c *Conc) BANPObj(b *BANP) map[string]interface{}      { return c.banpDoc(b).Obj }
