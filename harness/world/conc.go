package world

import (
	"bytes"
	"encoding/json"
	"fmt"
	"math/rand"
	"sort"
)

// Conc is the concretisation of an abstract world (DESIGN.md section 3): where the model's port
// chunks and address classes sit inside 1..65535 and 0.0.0.0-255.255.255.255.
type Conc struct {
	Seed     int64  `json:"seed"`
	PortCuts []int  `json:"portCuts"` // c[0..M], c[0]=1, c[M]=65536; chunk n = [c[n-1], c[n]-1]
	Q        int    `json:"q"`        // prefix length under which the nAddr classes are embedded
	Prefix   uint32 `json:"prefix"`   // the q prefix bits, left-aligned
	KBits    int    `json:"kBits"`
	// DefaultNs: the abstract namespace of this world that is concretised as the namespace literally named "default"
	// (whose objects may then omit metadata.namespace); "" = none. Applied by Rename before anything else sees the world.
	DefaultNs string `json:"defaultNs"`
}

// Rename returns the world with the namespace DefaultNs renamed to "default" everywhere it is mentioned (object namespaces,
// the automatic name label in selectors). Idempotent.
func (c *Conc) Rename(w *World) *World {
	if c.DefaultNs == "" {
		return w
	}
	for i := range w.Namespaces {
		if w.Namespaces[i].Name == "default" {
			return w
		}
	}
	b, err := json.Marshal(w)
	if err != nil {
		panic(err)
	}
	b = bytes.ReplaceAll(b, []byte(`"`+c.DefaultNs+`"`), []byte(`"default"`))
	out := &World{}
	if err := json.Unmarshal(b, out); err != nil {
		panic(err)
	}
	out.Normalize()
	return out
}

func log2(n int) int {
	k := 0
	for (1 << k) < n {
		k++
	}
	return k
}

// NewConc picks a seeded concretisation for w. Chunks of point ports have width 1.
func NewConc(w *World, seed int64) *Conc {
	r := rand.New(rand.NewSource(seed))
	c := &Conc{Seed: seed, KBits: log2(w.NAddr)}
	isPoint := map[int]bool{}
	for _, p := range w.PointPorts {
		isPoint[p] = true
	}
	// widths: point chunk = 1, the other chunks share the remaining ports (seeded; some stay tiny so that
	// boundaries such as 1|2 and 65534|65535 occur)
	var nonPoint []int
	for n := 1; n <= w.M; n++ {
		if !isPoint[n] {
			nonPoint = append(nonPoint, n)
		}
	}
	if len(nonPoint) == 0 {
		panic("world needs at least one non-point port chunk")
	}
	r.Shuffle(len(nonPoint), func(i, j int) { nonPoint[i], nonPoint[j] = nonPoint[j], nonPoint[i] })
	widths := make([]int, w.M+1)
	for n := 1; n <= w.M; n++ {
		widths[n] = 1
	}
	extra := 65535 - w.M
	for i, n := range nonPoint {
		if i == len(nonPoint)-1 {
			widths[n] += extra
			break
		}
		var e int
		switch r.Intn(6) {
		case 0:
			e = 0
		case 1:
			e = 1
		case 2:
			e = r.Intn(100)
		default:
			e = r.Intn(extra/(len(nonPoint)-i) + 1)
		}
		if e > extra {
			e = extra
		}
		widths[n] += e
		extra -= e
	}
	c.PortCuts = make([]int, w.M+1)
	c.PortCuts[0] = 1
	for n := 1; n <= w.M; n++ {
		c.PortCuts[n] = c.PortCuts[n-1] + widths[n]
	}
	if c.PortCuts[w.M] != 65536 {
		panic("port cuts do not cover 1..65535")
	}
	// address embedding
	qs := []int{0, 0, 8, 12, 16, 24, 32 - c.KBits}
	if !w.HasOut {
		c.Q = 0
	} else {
		c.Q = qs[2+r.Intn(len(qs)-2)]
	}
	if c.Q > 0 {
		// the embedded block must have addresses below and above it (two OUT classes)
		for {
			c.Prefix = (r.Uint32() >> (32 - c.Q)) << (32 - c.Q)
			if c.Prefix != 0 && c.Prefix>>(32-c.Q) != (uint32(1)<<c.Q)-1 {
				break
			}
		}
	}
	// one namespace in four worlds is the namespace "default" (drawn last: the other choices of a seed stay what they were)
	if len(w.Namespaces) > 0 && r.Intn(4) == 0 {
		c.DefaultNs = w.Namespaces[r.Intn(len(w.Namespaces))].Name
	}
	return c
}

// PortLo/PortHi: concrete bounds of model port n.
func (c *Conc) PortLo(n int) int { return c.PortCuts[n-1] }
func (c *Conc) PortHi(n int) int { return c.PortCuts[n] - 1 }

// classSize is the number of concrete addresses of one model address class.
func (c *Conc) classBits() int { return 32 - c.Q - c.KBits }

// AddrLo: first concrete address of class a (a < nAddr).
func (c *Conc) AddrLo(a int) uint32 { return c.Prefix + uint32(a)<<c.classBits() }
func (c *Conc) AddrHi(a int) uint32 {
	return c.AddrLo(a) + uint32((uint64(1)<<c.classBits())-1)
}

func IPStr(a uint32) string {
	return fmt.Sprintf("%d.%d.%d.%d", a>>24, (a>>16)&255, (a>>8)&255, a&255)
}

// CidrStr renders a model block as a real CIDR. The block must be aligned (size a power of two, lo a multiple).
func (c *Conc) CidrStr(b Cidr) string {
	if b.All {
		return "0.0.0.0/0"
	}
	size := b.Hi - b.Lo + 1
	j := log2(size)
	if 1<<j != size || b.Lo%size != 0 {
		panic(fmt.Sprintf("unaligned model block %v", b))
	}
	return fmt.Sprintf("%s/%d", IPStr(c.AddrLo(b.Lo)), c.Q+c.KBits-j)
}

// RepAddr returns a representative concrete address of class a (class nAddr = OUT); which picks lo/mid/hi.
func (c *Conc) RepAddr(w *World, a int, which int) (uint32, bool) {
	if a < w.NAddr {
		lo, hi := c.AddrLo(a), c.AddrHi(a)
		switch which % 3 {
		case 0:
			return lo, true
		case 1:
			return hi, true
		default:
			return lo + (hi-lo)/2, true
		}
	}
	// OUT classes: nAddr = below the embedded block, nAddr+1 = above it
	if c.Q == 0 {
		return 0, false
	}
	lo, hi := c.AddrLo(0), c.AddrHi(w.NAddr-1)
	if a == w.NAddr {
		switch which % 3 {
		case 0:
			return lo - 1, true
		case 1:
			return 0, true
		default:
			return (lo - 1) / 2, true
		}
	}
	switch which % 3 {
	case 0:
		return hi + 1, true
	case 1:
		return 0xffffffff, true
	default:
		return hi + 1 + (0xffffffff-hi-1)/2, true
	}
}

// AbstractRange maps a concrete address range to the set of model classes it covers.
// ok=false if a boundary is not a class boundary (the abstraction refuses to guess).
func (c *Conc) AbstractRange(w *World, lo, hi uint32) (classes []int, ok bool) {
	if lo > hi {
		return nil, false
	}
	type piece struct {
		lo, hi uint32
		cls    int
	}
	var pieces []piece
	blockLo, blockHi := c.AddrLo(0), c.AddrHi(w.NAddr-1)
	if c.Q > 0 && blockLo > 0 {
		pieces = append(pieces, piece{0, blockLo - 1, w.NAddr})
	}
	for a := 0; a < w.NAddr; a++ {
		pieces = append(pieces, piece{c.AddrLo(a), c.AddrHi(a), a})
	}
	if c.Q > 0 && blockHi < 0xffffffff {
		pieces = append(pieces, piece{blockHi + 1, 0xffffffff, w.NAddr + 1})
	}
	seen := map[int]bool{}
	startOK, endOK := false, false
	for _, p := range pieces {
		if p.hi < lo || p.lo > hi {
			continue
		}
		// overlapping piece must be fully inside
		if p.lo < lo || p.hi > hi {
			return nil, false
		}
		if p.lo == lo {
			startOK = true
		}
		if p.hi == hi {
			endOK = true
		}
		if !seen[p.cls] {
			seen[p.cls] = true
			classes = append(classes, p.cls)
		}
	}
	if !startOK || !endOK {
		return nil, false
	}
	sort.Ints(classes)
	return classes, true
}

// AbstractPorts maps concrete port ranges to model ports; ok=false on an unaligned boundary.
func (c *Conc) AbstractPorts(M int, ranges [][2]int) (ports []int, ok bool) {
	seen := map[int]bool{}
	for _, r := range ranges {
		lo, hi := r[0], r[1]
		if lo > hi {
			return nil, false
		}
		startOK, endOK := false, false
		for n := 1; n <= M; n++ {
			plo, phi := c.PortLo(n), c.PortHi(n)
			if phi < lo || plo > hi {
				continue
			}
			if plo < lo || phi > hi {
				return nil, false
			}
			if plo == lo {
				startOK = true
			}
			if phi == hi {
				endOK = true
			}
			seen[n] = true
		}
		if !startOK || !endOK {
			return nil, false
		}
	}
	for n := range seen {
		ports = append(ports, n)
	}
	sort.Ints(ports)
	return ports, true
}

func min(a, b int) int {
	if a < b {
		return a
	}
	return b
}
