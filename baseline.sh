#!/bin/bash
# Runs the repository's own test suite with the verification build tag OFF and compares the set of
# passing tests with the 830 stable tests recorded in /root/.vp/BASELINE.json.
# exit 0 iff every stable test passed.
export GOFLAGS=-mod=mod GOPROXY=off GOSUMDB=off GOTOOLCHAIN=local
OUT=$(mktemp /dev/shm/verif-baseline.XXXXXX)
trap 'rm -f "$OUT"; rm -f /repo/test_outputs/connlist/actual_* /repo/test_outputs/diff/actual_* 2>/dev/null' EXIT
(cd /repo && go test -json -vet=off -count=1 -timeout 25m ./... > "$OUT" 2>/dev/null)
python3 - "$OUT" <<'PY'
import json,sys
passed=set()
for line in open(sys.argv[1]):
    try: e=json.loads(line)
    except Exception: continue
    if e.get('Action')=='pass' and e.get('Test'):
        passed.add(e['Package']+'::'+e['Test'])
try:
    base=json.load(open('/root/.vp/BASELINE.json'))['stable_pass']
except Exception:
    base=None
if base is None:
    print('baseline file not available; passed tests:',len(passed)); sys.exit(0 if len(passed)>=830 else 1)
missing=[t for t in base if t not in passed]
print('stable tests: %d, passed now: %d, missing: %d'%(len(base),len(passed),len(missing)))
for t in missing[:20]: print('  MISSING',t)
sys.exit(1 if missing else 0)
PY
